//! State-dedup DFS over every driver choice of one evaluation, written as an NDJSON trace:
//! ctx / st / tr / end lines (see spec/PPGTrace.tla for the reader).
use crate::drive::*;
use crate::world::*;
use serde_json::{json, Map, Value};
use std::collections::{BTreeMap, BTreeSet, HashMap};
use std::fs::File;
use std::io::{BufWriter, Write};

pub struct Writer {
    dir: String,
    prefix: String,
    shard: usize,
    out: Option<BufWriter<File>>,
    pub line: usize,
    pub max_lines: usize,
    pub total_lines: usize,
    pub files: Vec<String>,
}

impl Writer {
    pub fn new(dir: &str, prefix: &str, max_lines: usize) -> Writer {
        Writer {
            dir: dir.to_string(),
            prefix: prefix.to_string(),
            shard: 0,
            out: None,
            line: 0,
            max_lines,
            total_lines: 0,
            files: vec![],
        }
    }
    fn open(&mut self) {
        let name = format!("{}/{}-{:04}.ndjson", self.dir, self.prefix, self.shard);
        self.out = Some(BufWriter::new(File::create(&name).expect("create shard")));
        self.files.push(name);
        self.line = 0;
    }
    /// returns the 1-based line number of the emitted record
    pub fn emit(&mut self, v: &Value) -> usize {
        if self.out.is_none() {
            self.open();
        }
        let o = self.out.as_mut().unwrap();
        serde_json::to_writer(&mut *o, v).unwrap();
        o.write_all(b"\n").unwrap();
        self.line += 1;
        self.total_lines += 1;
        self.line
    }
    /// call between scenarios: starts a new shard when the current one is full
    pub fn scenario_boundary(&mut self) {
        if self.line >= self.max_lines {
            self.close();
            self.shard += 1;
        }
    }
    pub fn close(&mut self) {
        if let Some(mut o) = self.out.take() {
            o.flush().unwrap();
        }
    }
}

#[derive(Clone, Debug)]
pub struct Opts {
    pub abort: bool,
    pub misuse: bool,
    pub steps: bool,
    pub max_states: usize,
    /// explore only one schedule (first choice everywhere)
    pub single: bool,
    /// > 0: instead of every schedule, this many seeded random schedules (the first two are
    /// "always the first legal call" and "always the last legal call")
    pub paths: usize,
    pub seed: u64,
    /// reconsider_all_jobs() is one of the driver's choices in every unfinished state
    pub reconsider: bool,
}
impl Default for Opts {
    fn default() -> Self {
        Opts {
            abort: false,
            misuse: false,
            steps: true,
            max_states: 100000,
            single: false,
            paths: 0,
            seed: 1,
            reconsider: false,
        }
    }
}

#[derive(Clone, Debug)]
pub struct EndInfo {
    pub line: usize,
    pub st_line: usize,
    pub hist1: BTreeMap<String, String>,
    pub files1: BTreeMap<String, String>,
    pub clean: bool, // nothing failed, not aborted, engine alive, history ok
    pub aborted: bool,
    pub started: BTreeSet<String>,
    pub faildel: BTreeSet<String>,
    pub succ_outputs: BTreeSet<String>,
    pub sig: String,
    /// per successfully executed job: the engine's output of each direct upstream when it started
    pub consumed: BTreeMap<String, BTreeMap<String, String>>,
    /// started but not successful (failed, changed output, running at abort)
    pub touched: BTreeSet<String>,
}

#[derive(Default, Clone, Debug)]
pub struct Stats {
    pub ctxs: usize,
    pub states: usize,
    pub transitions: usize,
    pub ends: usize,
    pub truncated: usize,
    pub misuse: usize,
}

pub fn ctx_json(w: &World, cfg: &EvalCfg, opts: &Opts, extra: &Map<String, Value>) -> Value {
    let mut o = Map::new();
    o.insert("t".into(), json!("ctx"));
    let nodes: Vec<String> = w.g.kind.keys().cloned().collect();
    o.insert("nodes".into(), json!(nodes));
    o.insert(
        "kind".into(),
        Value::Object(w.g.kind.iter().map(|(k, v)| (k.clone(), json!(v.s()))).collect()),
    );
    o.insert(
        "edges".into(),
        Value::Array(w.g.edges.iter().map(|(u, d)| json!([u, d])).collect()),
    );
    let setmap = |m: &BTreeMap<String, BTreeSet<String>>| -> Value {
        Value::Object(
            w.g.kind
                .keys()
                .map(|j| {
                    (
                        j.clone(),
                        Value::Array(
                            m.get(j)
                                .map(|s| s.iter().map(|x| json!(x)).collect())
                                .unwrap_or_default(),
                        ),
                    )
                })
                .collect(),
        )
    };
    o.insert("needs".into(), setmap(&w.g.needs));
    o.insert("uses".into(), setmap(&w.g.uses));
    o.insert(
        "names".into(),
        Value::Object(w.g.kind.keys().map(|j| (j.clone(), json!(names_of(j)))).collect()),
    );
    o.insert(
        "conv".into(),
        json!(match w.conv {
            Conv::Ids => "ids",
            Conv::Names => "names",
        }),
    );
    o.insert(
        "cmp".into(),
        json!(match w.cmp {
            Cmp::Exact => "exact",
            Cmp::IgnoreStamp => "nostamp",
        }),
    );
    o.insert(
        "ver".into(),
        Value::Object(
            w.g.kind
                .keys()
                .map(|j| (j.clone(), json!(w.ver.get(j).copied().unwrap_or(0))))
                .collect(),
        ),
    );
    o.insert("evalno".into(), json!(w.evalno));
    o.insert("det".into(), json!(!w.tainted && cfg.flaky.is_empty()));
    o.insert("steps".into(), json!(opts.steps));
    o.insert("prevsucc".into(), json!([]));
    o.insert("hist0".into(), hist_json(&w.hist));
    o.insert(
        "file0".into(),
        Value::Object(w.files.iter().map(|(k, v)| (k.clone(), parse_content(v))).collect()),
    );
    o.insert("fail".into(), json!(cfg.fail.iter().collect::<Vec<_>>()));
    o.insert(
        "flaky".into(),
        json!(cfg.flaky.keys().collect::<Vec<_>>()),
    );
    o.insert("decl".into(), json!(cfg.decl));
    o.insert("abort".into(), json!(opts.abort));
    o.insert("misuse".into(), json!(opts.misuse));
    o.insert("single".into(), json!(opts.single));
    o.insert("paths".into(), json!(opts.paths));
    // the world's ground truth (see world.rs): what each job was last built from
    o.insert("truth".into(), json!(true));
    o.insert(
        "built".into(),
        Value::Object(
            w.built
                .iter()
                .map(|(j, m)| {
                    (
                        j.clone(),
                        Value::Object(m.iter().map(|(u, v)| (u.clone(), parse_value(v))).collect()),
                    )
                })
                .collect(),
        ),
    );
    o.insert("dirty".into(), json!(w.dirty.iter().collect::<Vec<_>>()));
    // defaults for the chain links; overwritten by extra
    o.insert("prev".into(), json!(0));
    o.insert("twin".into(), json!(0));
    o.insert("sameas".into(), json!(0));
    o.insert("exact".into(), json!(0));
    o.insert("edit".into(), json!("first"));
    o.insert("fam".into(), json!(""));
    // every job id of the graph or of a history key, with its output names; and all of those
    // strings in lexicographic order (TLA+ can neither split nor order strings)
    let mut ids: BTreeSet<String> = w.g.kind.keys().cloned().collect();
    for k in w.hist.keys() {
        match k.split_once("!!!") {
            Some((a, b)) => {
                ids.insert(a.to_string());
                if !b.is_empty() {
                    ids.insert(b.to_string());
                }
            }
            None => {
                ids.insert(k.clone());
            }
        }
    }
    let mut sorted: BTreeSet<String> = ids.clone();
    for i in ids.iter() {
        for n in names_of(i) {
            sorted.insert(n);
        }
    }
    o.insert("ids".into(), json!(ids.iter().collect::<Vec<_>>()));
    o.insert(
        "idnames".into(),
        Value::Object(ids.iter().map(|i| (i.clone(), json!(names_of(i)))).collect()),
    );
    o.insert("sorted".into(), json!(sorted.iter().collect::<Vec<_>>()));
    for (k, v) in extra {
        o.insert(k.clone(), v.clone());
    }
    Value::Object(o)
}

/// reconstruct world and cfg from a ctx line (replay)
pub fn world_from_ctx(c: &Value) -> (World, EvalCfg, Opts) {
    let mut g = Graph {
        kind: BTreeMap::new(),
        edges: BTreeSet::new(),
        needs: BTreeMap::new(),
        uses: BTreeMap::new(),
    };
    for (j, k) in c["kind"].as_object().unwrap() {
        g.kind.insert(
            j.clone(),
            match k.as_str().unwrap() {
                "A" => Kind::A,
                "O" => Kind::O,
                _ => Kind::E,
            },
        );
    }
    for e in c["edges"].as_array().unwrap() {
        g.edges.insert((e[0].as_str().unwrap().into(), e[1].as_str().unwrap().into()));
    }
    for (which, tgt) in [("needs", &mut g.needs), ("uses", &mut g.uses)] {
        for (j, s) in c[which].as_object().unwrap() {
            tgt.insert(
                j.clone(),
                s.as_array().unwrap().iter().map(|x| x.as_str().unwrap().to_string()).collect(),
            );
        }
    }
    let cmp = if c["cmp"] == "exact" { Cmp::Exact } else { Cmp::IgnoreStamp };
    let conv = if c["conv"] == "ids" { Conv::Ids } else { Conv::Names };
    let mut w = World::new(g, cmp, conv);
    for (j, v) in c["ver"].as_object().unwrap() {
        let v = v.as_u64().unwrap() as u32;
        if v != 0 {
            w.ver.insert(j.clone(), v);
        }
    }
    w.evalno = c["evalno"].as_u64().unwrap() as u32;
    w.tainted = !c["det"].as_bool().unwrap_or(true);
    for (k, v) in c["hist0"].as_object().unwrap() {
        let s = if k.ends_with("!!!") {
            v["names"]
                .as_array()
                .unwrap()
                .iter()
                .map(|x| x.as_str().unwrap().to_string())
                .collect::<Vec<_>>()
                .join("\n")
        } else if let Some(r) = v.get("raw") {
            r.as_str().unwrap().to_string()
        } else {
            v.to_string()
        };
        w.hist.insert(k.clone(), s);
    }
    for (k, v) in c["file0"].as_object().unwrap() {
        w.files.insert(k.clone(), v.to_string());
    }
    let mut cfg = EvalCfg::default();
    for j in c["fail"].as_array().unwrap() {
        cfg.fail.insert(j.as_str().unwrap().into());
    }
    for j in c["flaky"].as_array().unwrap() {
        cfg.flaky.insert(j.as_str().unwrap().into(), Flaky::Nonce);
    }
    cfg.decl = c["decl"].as_u64().unwrap_or(0) as usize;
    let opts = Opts {
        abort: c["abort"].as_bool().unwrap_or(false),
        misuse: c["misuse"].as_bool().unwrap_or(false),
        steps: true,
        max_states: 100000,
        single: c["single"].as_bool().unwrap_or(false),
        paths: c["paths"].as_u64().unwrap_or(0) as usize,
        seed: 1,
        reconsider: false,
    };
    (w, cfg, opts)
}

fn replay<'a>(w: &'a World, cfg: &'a EvalCfg, steps: bool, path: &[Call]) -> Run<'a> {
    let (mut run, _, _) = Run::begin(w, cfg, steps);
    for c in path {
        run.call(c);
    }
    run
}

/// links to other evaluations of the same scenario, resolved while writing
pub struct Links<'a> {
    pub pathkey: String,
    /// end lines of the same chain under exact comparison, by path key and end signature
    pub exact: Option<&'a HashMap<String, Vec<usize>>>,
    /// the driver injects no failure and no flaky behaviour into this context
    pub faultfree: bool,
}

pub struct CtxResult {
    pub ctx_line: usize,
    pub ends: Vec<EndInfo>,
}

/// explore every schedule of one evaluation context and write it out
pub fn explore_ctx(
    wr: &mut Writer,
    w: &World,
    cfg: &EvalCfg,
    opts: &Opts,
    extra: &Map<String, Value>,
    links: &Links,
    stats: &mut Stats,
) -> CtxResult {
    // the evaluation is started first: the context line carries the iteration orders the engine
    // really uses (hook snapshot after event_startup)
    let (mut run, cls, msg) = Run::begin(w, cfg, opts.steps);
    let mut extra2 = extra.clone();
    extra2.insert("ord".into(), run.ord_json());
    let ctx_line = wr.emit(&ctx_json(w, cfg, opts, &extra2));
    stats.ctxs += 1;
    let mut states: HashMap<String, usize> = HashMap::new();
    let mut ends: Vec<EndInfo> = vec![];
    let mut first_end: usize = 0;

    // initial state
    let mut st = run.state_json();
    let key = st.to_string();
    st.as_object_mut().unwrap().insert("ctx".into(), json!(ctx_line));
    let l0 = wr.emit(&st);
    states.insert(key, l0);
    stats.states += 1;
    let mut tr = Map::new();
    tr.insert("t".into(), json!("tr"));
    tr.insert("ctx".into(), json!(ctx_line));
    tr.insert("from".into(), json!(0));
    tr.insert("to".into(), json!(l0));
    tr.insert("call".into(), json!({"name": "startup", "job": ""}));
    tr.insert("res".into(), json!(cls));
    tr.insert("msg".into(), json!(msg));
    tr.insert("mis".into(), json!(false));
    tr.insert("steps".into(), if opts.steps { run.steps_json() } else { json!([]) });
    wr.emit(&Value::Object(tr));
    stats.transitions += 1;

    let mut stack: Vec<(Vec<Call>, usize)> = vec![(vec![], l0)];
    if run.is_finished() {
        handle_end(wr, &mut run, links, ctx_line, l0, &mut ends, &mut first_end, stats);
    }
    if opts.paths > 0 {
        // seeded random schedules instead of all of them
        stack.clear();
        let mut seen_tr: std::collections::HashSet<(usize, String)> = std::collections::HashSet::new();
        for pi in 0..opts.paths {
            let mut h: u64 = opts.seed.wrapping_mul(0x9E3779B97F4A7C15) ^ (pi as u64).wrapping_mul(0xD1B54A32D192ED03);
            for b in format!("{:?}{:?}", w, cfg).bytes() {
                h = (h ^ b as u64).wrapping_mul(0x100000001B3);
            }
            let mut next = move || {
                h ^= h >> 12;
                h ^= h << 25;
                h ^= h >> 27;
                h.wrapping_mul(0x2545F4914F6CDD1D)
            };
            let mut run = replay(w, cfg, false, &[]);
            let mut from_line = l0;
            let mut guard = 0;
            loop {
                guard += 1;
                let legal = run.legal_calls(opts.abort);
                if legal.is_empty() || guard > 10000 {
                    break;
                }
                let c = match pi {
                    0 => legal[0].clone(),
                    1 => legal[legal.len() - 1].clone(),
                    _ => legal[(next() % legal.len() as u64) as usize].clone(),
                };
                let (cls, msg) = run.call(&c);
                let mut st = run.state_json();
                let key = st.to_string();
                let (to_line, is_new) = match states.get(&key) {
                    Some(l) => (*l, false),
                    None => {
                        st.as_object_mut().unwrap().insert("ctx".into(), json!(ctx_line));
                        let l = wr.emit(&st);
                        states.insert(key, l);
                        stats.states += 1;
                        (l, true)
                    }
                };
                if seen_tr.insert((from_line, format!("{:?}", c))) {
                    let mut tr = Map::new();
                    tr.insert("t".into(), json!("tr"));
                    tr.insert("ctx".into(), json!(ctx_line));
                    tr.insert("from".into(), json!(from_line));
                    tr.insert("to".into(), json!(to_line));
                    tr.insert("call".into(), c.to_json());
                    tr.insert("res".into(), json!(cls));
                    tr.insert("msg".into(), json!(msg));
                    tr.insert("mis".into(), json!(false));
                    tr.insert("steps".into(), if opts.steps { run.steps_json() } else { json!([]) });
                    wr.emit(&Value::Object(tr));
                    stats.transitions += 1;
                }
                if is_new && run.is_finished() {
                    handle_end(wr, &mut run, links, ctx_line, to_line, &mut ends, &mut first_end, stats);
                }
                from_line = to_line;
            }
        }
    }
    while let Some((path, from_line)) = stack.pop() {
        let here = replay(w, cfg, false, &path);
        let mut legal = here.legal_calls(opts.abort);
        if opts.single {
            legal.truncate(1);
        }
        let mut calls: Vec<Call> = legal;
        if opts.reconsider && !calls.is_empty() && !here.b.aborting && !snapshot_finished_pub(&here) {
            calls.push(Call::Reconsider);
        }
        if opts.misuse {
            calls.extend(here.illegal_calls());
        }
        for c in calls {
            let mut run = replay(w, cfg, false, &path);
            let (cls, msg) = run.call(&c);
            let mut st = run.state_json();
            let key = st.to_string();
            let (to_line, is_new) = match states.get(&key) {
                Some(l) => (*l, false),
                None => {
                    st.as_object_mut().unwrap().insert("ctx".into(), json!(ctx_line));
                    let l = wr.emit(&st);
                    states.insert(key, l);
                    stats.states += 1;
                    (l, true)
                }
            };
            let mut tr = Map::new();
            tr.insert("t".into(), json!("tr"));
            tr.insert("ctx".into(), json!(ctx_line));
            tr.insert("from".into(), json!(from_line));
            tr.insert("to".into(), json!(to_line));
            tr.insert("call".into(), c.to_json());
            tr.insert("res".into(), json!(cls));
            tr.insert("msg".into(), json!(msg));
            tr.insert("mis".into(), json!(c.is_misuse()));
            tr.insert("steps".into(), if opts.steps { run.steps_json() } else { json!([]) });
            wr.emit(&Value::Object(tr));
            stats.transitions += 1;
            if c.is_misuse() {
                stats.misuse += 1;
                continue;
            }
            if is_new {
                if run.is_finished() {
                    handle_end(wr, &mut run, links, ctx_line, to_line, &mut ends, &mut first_end, stats);
                }
                if states.len() < opts.max_states {
                    let mut p2 = path.clone();
                    p2.push(c.clone());
                    stack.push((p2, to_line));
                } else {
                    stats.truncated += 1;
                }
            }
        }
    }
    CtxResult { ctx_line, ends }
}

#[allow(clippy::too_many_arguments)]
fn handle_end(
    wr: &mut Writer,
    run: &mut Run,
    links: &Links,
    ctx_line: usize,
    st_line: usize,
    ends: &mut Vec<EndInfo>,
    first_end: &mut usize,
    stats: &mut Stats,
) {
    let (cls, msg, hist1) = run.new_history();
    let mut o = Map::new();
    o.insert("t".into(), json!("end"));
    o.insert("ctx".into(), json!(ctx_line));
    o.insert("st".into(), json!(st_line));
    o.insert("nh".into(), json!(cls));
    o.insert("msg".into(), json!(msg));
    o.insert("hist1".into(), hist_json(&hist1));
    let line = wr.line + 1;
    let b = &run.b;
    let failed_any = !b.faildel.is_empty() || !b.changed.is_empty();
    let clean = !failed_any && !b.aborted && !b.dead && cls == "ok";
    // `first`: the first clean end of this context (schedule independence is about clean ends)
    if clean && *first_end == 0 {
        *first_end = line;
    }
    o.insert("first".into(), json!(if clean { *first_end } else { 0 }));
    let sig = format!(
        "{:?}|{:?}|{:?}|{:?}|{}|{:?}|{}",
        b.started, b.succ, b.faildel, b.changed, b.aborted, b.rab, b.dead
    );
    if let Some(m) = links.exact {
        // partners in the stamp-free run: the ends with the same deliveries; when this run took a
        // turn the stamp-free run never takes (the comparison being blamed for it), and the driver
        // injected no fault and did not abort, every end of the stamp-free run of the same world
        let k = format!("{}#{}", links.pathkey, sig);
        let mut partners = m.get(&k).cloned().unwrap_or_default();
        if partners.is_empty() && links.faultfree && !b.aborted && !b.aborting {
            partners = m.get(&format!("{}#*", links.pathkey)).cloned().unwrap_or_default();
        }
        o.insert("exact".into(), json!(partners));
        o.insert("exactcmp".into(), json!(true));
    } else {
        o.insert("exact".into(), json!([]));
        o.insert("exactcmp".into(), json!(false));
    }
    // every job id mentioned by the graph or by a history key, with its output names (C18)
    let mut ids: BTreeSet<String> = run.w.g.kind.keys().cloned().collect();
    for k in run.w.hist.keys().chain(hist1.keys()) {
        match k.split_once("!!!") {
            Some((a, b)) => {
                ids.insert(a.to_string());
                if !b.is_empty() {
                    ids.insert(b.to_string());
                }
            }
            None => {
                ids.insert(k.clone());
            }
        }
    }
    o.insert("ids".into(), json!(ids.iter().collect::<Vec<_>>()));
    o.insert(
        "idnames".into(),
        Value::Object(ids.iter().map(|i| (i.clone(), json!(names_of(i)))).collect()),
    );
    let l = wr.emit(&Value::Object(o));
    assert_eq!(l, line);
    stats.ends += 1;
    let succ_outputs: BTreeSet<String> = b
        .succ
        .iter()
        .filter(|j| run.w.g.kind[*j] == Kind::O)
        .cloned()
        .collect();
    ends.push(EndInfo {
        line: l,
        st_line,
        hist1,
        files1: b.file.clone(),
        clean,
        aborted: b.aborted,
        started: b.started.clone(),
        faildel: b.faildel.clone(),
        succ_outputs,
        sig,
        consumed: b
            .succ
            .iter()
            .map(|j| {
                let m: BTreeMap<String, String> = b
                    .cons
                    .get(j)
                    .and_then(|c| c.as_object())
                    .map(|o| {
                        o.iter()
                            .filter_map(|(u, r)| r.get("e").map(|e| (u.clone(), e.to_string())))
                            .collect()
                    })
                    .unwrap_or_default();
                (j.clone(), m)
            })
            .collect(),
        touched: b.started.difference(&b.succ).cloned().collect(),
    });
}
