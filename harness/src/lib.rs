pub mod big;
pub mod chain;
pub mod drive;
pub mod explore;
pub mod world;
