//! C19: long chains / wide layers / fan-in / fan-out with thousands of jobs, every cascade shape,
//! one (seeded) schedule each. Small instances are written as full traces (ctx/st/tr/end) through
//! explore_ctx(single schedule); large ones as one `big` summary line per evaluation, whose
//! predicate (spec/PPGTrace.tla, clause C19*) is evaluated by TLC.
use crate::drive::*;
use crate::world::*;
use pypipegraph2::verif::{drain_log, set_logging, JobOutputResult, VerifEvent};
use pypipegraph2::PPGEvaluator;
use serde_json::{json, Value};
use std::cell::RefCell;
use std::collections::{BTreeMap, BTreeSet, HashMap, HashSet};
use std::panic::{catch_unwind, AssertUnwindSafe};
use std::rc::Rc;

pub fn jname(i: usize) -> String {
    format!("J{:06}", i)
}

/// kind pattern: string over A/O/E repeated along the index
fn kind_at(pattern: &str, i: usize) -> Kind {
    match pattern.as_bytes()[i % pattern.len()] {
        b'A' => Kind::A,
        b'O' => Kind::O,
        _ => Kind::E,
    }
}

/// families: chain, layers (width w fully connected to next layer... limited fan), fanin, fanout
pub fn big_graph(family: &str, n: usize, pattern: &str, width: usize) -> Graph {
    let mut kind = BTreeMap::new();
    let mut edges = BTreeSet::new();
    match family {
        "chain" => {
            for i in 0..n {
                kind.insert(jname(i), kind_at(pattern, i));
                if i > 0 {
                    edges.insert((jname(i - 1), jname(i)));
                }
            }
        }
        "erun" => {
            // a long run of one kind (pattern[1], normally Ephemeral) between a first job of kind
            // pattern[0] and a last job of kind pattern[2]: the recursive helpers of the engine
            // walk such runs
            for i in 0..n {
                let k = if i == 0 { 0 } else if i == n - 1 { 2 } else { 1 };
                kind.insert(jname(i), kind_at(pattern, k));
                if i > 0 {
                    edges.insert((jname(i - 1), jname(i)));
                }
            }
        }
        "layers" => {
            // n layers of `width` jobs; job k of layer l depends on jobs k and k+1 (mod width) of layer l-1
            for l in 0..n {
                for k in 0..width {
                    let id = l * width + k;
                    kind.insert(jname(id), kind_at(pattern, l));
                    if l > 0 {
                        edges.insert((jname((l - 1) * width + k), jname(id)));
                        edges.insert((jname((l - 1) * width + (k + 1) % width), jname(id)));
                    }
                }
            }
        }
        "fanout" => {
            // one root, n leaves, (pattern[0] root kind, pattern[1..] leaves)
            kind.insert(jname(0), kind_at(pattern, 0));
            for i in 1..=n {
                kind.insert(jname(i), kind_at(pattern, 1 + (i - 1) % (pattern.len() - 1).max(1)));
                edges.insert((jname(0), jname(i)));
            }
        }
        "fanin" => {
            // n roots, one sink
            for i in 0..n {
                kind.insert(jname(i), kind_at(pattern, i % (pattern.len() - 1).max(1)));
                edges.insert((jname(i), jname(n)));
            }
            kind.insert(jname(n), kind_at(pattern, pattern.len() - 1));
        }
        x => panic!("unknown big family {}", x),
    }
    // the last job of an all-ephemeral tail would be leafy: make sure the graph ends in an Output
    let mut g = Graph {
        kind,
        edges,
        needs: BTreeMap::new(),
        uses: BTreeMap::new(),
    };
    for j in g.kind.keys().cloned().collect::<Vec<_>>() {
        g.uses.insert(j, BTreeSet::new()); // constant jobs: contents stay small
    }
    g.normalise_ids();
    g
}

#[derive(Clone, Debug)]
pub enum Shape {
    FirstBuild,
    Rerun,
    InvalidateRoot,
    InvalidateLeaf,
    FailRoot,
    AbortMidway,
    ResumeAfter,
}

pub struct BigResult {
    pub summary: Value,
    pub hist1: BTreeMap<String, String>,
    pub files1: BTreeMap<String, String>,
    pub ok: bool,
}

struct Rng(u64);
impl Rng {
    fn next(&mut self) -> u64 {
        let mut x = self.0;
        x ^= x >> 12;
        x ^= x << 25;
        x ^= x >> 27;
        self.0 = x;
        x.wrapping_mul(0x2545F4914F6CDD1D)
    }
}

/// lean single-schedule driver over the public API (no per-call snapshots)
#[allow(clippy::too_many_arguments)]
pub fn run_big(
    w: &World,
    fail: &BTreeSet<String>,
    abort_after: Option<usize>,
    concurrency: usize,
    seed: u64,
    label: &str,
    family: &str,
    n: usize,
) -> BigResult {
    let present: HashSet<String> = w.files.keys().cloned().collect();
    let strat = Strat {
        present: Rc::new(RefCell::new(present)),
        cmp: w.cmp,
        conv: w.conv,
        needs: BTreeMap::new(),
    };
    let hist: HashMap<String, String> = w.hist.iter().map(|(k, v)| (k.clone(), v.clone())).collect();
    let mut g = PPGEvaluator::new_with_history(hist, strat);
    for (j, k) in w.g.kind.iter() {
        g.add_node(
            j,
            match k {
                Kind::A => pypipegraph2::JobKind::Always,
                Kind::O => pypipegraph2::JobKind::Output,
                Kind::E => pypipegraph2::JobKind::Ephemeral,
            },
        );
    }
    for (u, d) in w.g.edges.iter() {
        g.depends_on(d, u);
    }
    let mut rng = Rng(seed.wrapping_mul(0x9E3779B97F4A7C15) | 1);
    let mut files = w.files.clone();
    let mut calls = 0usize;
    let mut bad: Vec<Value> = vec![];
    let mut maxdepth = 0u32;
    let mut waves_per_call_max = 0usize;
    let mut started: BTreeSet<String> = BTreeSet::new();
    let mut succeeded: BTreeSet<String> = BTreeSet::new();
    let mut failed_del: BTreeSet<String> = BTreeSet::new();
    let mut running: Vec<String> = vec![];
    let mut aborted = false;
    let mut stalled = false;
    let mut dead = false;
    set_logging(true);
    drain_log();
    macro_rules! call {
        ($name:expr, $job:expr, $e:expr) => {{
            calls += 1;
            let r = catch_unwind(AssertUnwindSafe(|| $e));
            let (cls, msg, _) = classify(r);
            let mut waves = 0usize;
            for ev in drain_log() {
                if let VerifEvent::Wave { depth } = ev {
                    waves += 1;
                    if depth > maxdepth {
                        maxdepth = depth;
                    }
                }
            }
            if waves > waves_per_call_max {
                waves_per_call_max = waves;
            }
            if cls != "ok" {
                if bad.len() < 5 {
                    bad.push(json!({"call": $name, "job": $job, "res": cls, "msg": msg.chars().take(160).collect::<String>()}));
                }
                if cls == "internal" || cls == "panic" {
                    dead = true;
                }
            }
            cls
        }};
    }
    call!("startup", "", g.event_startup());
    let content_of = |j: &str| -> Value { w.content(j, &BTreeMap::new(), None) };
    while !dead {
        let fin = catch_unwind(AssertUnwindSafe(|| g.is_finished())).unwrap_or(true);
        if fin {
            // outstanding cleanups
            for c in g.query_ready_for_cleanup() {
                call!("cleanup", c.clone(), g.event_job_cleanup_done(&c));
            }
            break;
        }
        if let Some(k) = abort_after {
            if started.len() >= k && !aborted {
                for j in running.clone() {
                    call!("failx", j.clone(), g.event_job_finished_failure(&j));
                    failed_del.insert(j);
                }
                running.clear();
                call!("abort", "", g.abort_remaining());
                aborted = true;
                continue;
            }
        }
        // cleanups first (like the python runner), sometimes delayed
        for c in g.query_ready_for_cleanup() {
            if rng.next() % 4 != 0 {
                call!("cleanup", c.clone(), g.event_job_cleanup_done(&c));
            }
        }
        let mut ready: Vec<String> = g.query_ready_to_run().into_iter().collect();
        ready.sort();
        if ready.is_empty() && running.is_empty() {
            stalled = true;
            break;
        }
        let start_one = !ready.is_empty() && (running.len() < concurrency || running.is_empty());
        if start_one && (running.is_empty() || rng.next() % 2 == 0) {
            let j = ready[(rng.next() as usize) % ready.len()].clone();
            let cls = call!("start", j.clone(), g.event_now_running(&j));
            if cls == "ok" {
                started.insert(j.clone());
                if w.g.kind[&j] == Kind::O {
                    files.insert(j.clone(), GARBAGE.to_string());
                }
                running.push(j);
            }
        } else if !running.is_empty() {
            let i = (rng.next() as usize) % running.len();
            let j = running.remove(i);
            if fail.contains(&j) {
                call!("fail", j.clone(), g.event_job_finished_failure(&j));
                failed_del.insert(j);
            } else {
                let c = content_of(&j);
                if w.g.kind[&j] == Kind::O {
                    files.insert(j.clone(), c.to_string());
                }
                let rep = w.report(&c);
                let cls = call!("success", j.clone(), g.event_job_finished_success(&j, rep));
                if cls == "ok" {
                    succeeded.insert(j);
                }
            }
        }
    }
    set_logging(false);
    let (nh_cls, nh_msg, hist1) = if dead {
        ("dead".to_string(), String::new(), BTreeMap::new())
    } else {
        let r = catch_unwind(AssertUnwindSafe(|| g.new_history()));
        let (c, m, h) = classify(r);
        (c, m, h.map(|h| h.into_iter().collect::<BTreeMap<_, _>>()).unwrap_or_default())
    };
    let q = |s: HashSet<String>| -> usize { s.len() };
    let (nfailed, nupf, nready, nrunning) = if dead {
        (0, 0, 0, 0)
    } else {
        (
            q(g.query_failed()),
            q(g.query_upstream_failed()),
            q(g.query_ready_to_run()),
            q(g.query_jobs_running()),
        )
    };
    let fin = !dead && g.is_finished();
    // how many jobs have a current output the engine can report
    let mut nouts = 0;
    if !dead {
        for j in w.g.kind.keys() {
            if let JobOutputResult::Done(_) = g.get_job_output(j) {
                nouts += 1;
            }
        }
    }
    let nk = |k: Kind, s: &BTreeSet<String>| s.iter().filter(|j| w.g.kind[*j] == k).count();
    let summary = json!({
        "t": "big", "family": family, "n": n, "jobs": w.g.kind.len(), "shape": label,
        "calls": calls, "bad": bad, "maxdepth": maxdepth, "maxwaves": waves_per_call_max,
        "fin": fin, "dead": dead, "stalled": stalled, "aborted": aborted,
        "nh": nh_cls, "nhmsg": nh_msg,
        "started": started.len(), "startedA": nk(Kind::A, &started), "startedO": nk(Kind::O, &started),
        "startedE": nk(Kind::E, &started),
        "succeeded": succeeded.len(), "faildel": failed_del.len(),
        "failed": nfailed, "upf": nupf, "ready": nready, "running": nrunning, "outs": nouts,
        "histkeys": hist1.len(),
        "nA": w.g.kind.values().filter(|k| **k == Kind::A).count(),
        "nO": w.g.kind.values().filter(|k| **k == Kind::O).count(),
        "nE": w.g.kind.values().filter(|k| **k == Kind::E).count(),
    });
    let ok = !dead && fin && nh_cls == "ok";
    BigResult {
        summary,
        hist1,
        files1: files,
        ok,
    }
}
