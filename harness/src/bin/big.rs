//! C19 driver. usage: big out=<dir> sizes=10,100,1000 full=100 seed=1 tag=big
use ppg2verif::big::*;
use ppg2verif::drive::EvalCfg;
use ppg2verif::explore::*;
use ppg2verif::world::*;
use serde_json::{json, Map};
use std::collections::{BTreeMap, BTreeSet};
use std::sync::{Arc, Mutex};

fn first_of(g: &Graph, pred: &dyn Fn(Kind) -> bool) -> Option<String> {
    g.topo().into_iter().find(|j| pred(g.kind[j]))
}
fn last_of(g: &Graph, pred: &dyn Fn(Kind) -> bool) -> Option<String> {
    g.topo().into_iter().rev().find(|j| pred(g.kind[j]))
}

struct Job {
    family: String,
    pattern: String,
    width: usize,
}

fn main() {
    std::panic::set_hook(Box::new(|_| {}));
    let mut kv: BTreeMap<String, String> = BTreeMap::new();
    for a in std::env::args().skip(1) {
        if let Some((k, v)) = a.split_once('=') {
            kv.insert(k.to_string(), v.to_string());
        }
    }
    let get = |k: &str, d: &str| kv.get(k).cloned().unwrap_or_else(|| d.to_string());
    let out = get("out", ".scratch/big");
    let sizes: Vec<usize> = get("sizes", "12,24,48").split(',').map(|x| x.parse().unwrap()).collect();
    let full_upto: usize = get("full", "48").parse().unwrap();
    let seed: u64 = get("seed", "1").parse().unwrap();
    let tag = get("tag", "big");
    let threads: usize = get("threads", "16").parse().unwrap();
    std::fs::create_dir_all(&out).unwrap();
    let mut jobs: Vec<Job> = vec![];
    for pat in get("patterns", "O,AO,AEO,OEEO,AOE,EO,EEO,AAO").split(',').filter(|x| !x.is_empty()) {
        jobs.push(Job { family: "chain".into(), pattern: pat.into(), width: 1 });
    }
    for pat in get("epatterns", "OEO,AEO,OEA").split(',').filter(|x| !x.is_empty()) {
        jobs.push(Job { family: "erun".into(), pattern: pat.into(), width: 1 });
    }
    for pat in get("lpatterns", "O,AO,AEO,EO").split(',').filter(|x| !x.is_empty()) {
        jobs.push(Job { family: "layers".into(), pattern: pat.into(), width: 4 });
    }
    for pat in get("fpatterns", "AO,EO,OO,AEO,OEO").split(',').filter(|x| !x.is_empty()) {
        jobs.push(Job { family: "fanout".into(), pattern: pat.into(), width: 1 });
        jobs.push(Job { family: "fanin".into(), pattern: pat.into(), width: 1 });
    }
    let only: Option<usize> = kv.get("only").map(|x| x.parse().unwrap());
    if only.is_none() && get("isolate", "1") == "1" {
        // parent: every family x pattern group runs in a child process of its own, so that a crash
        // of the code under test (a stack overflow aborts the whole process) is data - one `big`
        // line that no check accepts - instead of the end of the run
        let exe = std::env::current_exe().unwrap();
        let args: Vec<String> = std::env::args().skip(1).filter(|a| !a.starts_with("tag=") && !a.starts_with("threads=")).collect();
        let njobs = jobs.len();
        let jobs = Arc::new(jobs);
        let next = Arc::new(Mutex::new(0usize));
        let agg = Arc::new(Mutex::new((serde_json::Map::new(), Vec::<String>::new(), 0usize)));
        let mut handles = vec![];
        for _ in 0..threads {
            let (exe, args, next, agg, jobs, out, tag, sizes) =
                (exe.clone(), args.clone(), next.clone(), agg.clone(), jobs.clone(), out.clone(), tag.clone(), sizes.clone());
            handles.push(std::thread::spawn(move || loop {
                let i = {
                    let mut g = next.lock().unwrap();
                    let i = *g;
                    *g += 1;
                    i
                };
                if i >= njobs {
                    break;
                }
                let o = std::process::Command::new(&exe)
                    .args(&args)
                    .arg(format!("only={}", i))
                    .arg(format!("tag={}-j{:02}", tag, i))
                    .arg("threads=1")
                    .output()
                    .expect("spawn child");
                let text = String::from_utf8_lossy(&o.stdout).to_string();
                let summary = text.lines().rev().find(|l| l.starts_with('{')).and_then(|l| serde_json::from_str::<serde_json::Value>(l).ok());
                let mut a = agg.lock().unwrap();
                match (o.status.success(), summary) {
                    (true, Some(v)) => {
                        for k in ["ctxs", "states", "transitions", "ends", "big_evaluations", "lines"] {
                            let cur = a.0.get(k).and_then(|x| x.as_u64()).unwrap_or(0);
                            a.0.insert(k.to_string(), json!(cur + v[k].as_u64().unwrap_or(0)));
                        }
                        for f in v["files"].as_array().cloned().unwrap_or_default() {
                            a.1.push(f.as_str().unwrap().to_string());
                        }
                    }
                    _ => {
                        let err = String::from_utf8_lossy(&o.stderr);
                        let msg: String = err.lines().rev().take(3).collect::<Vec<_>>().join(" | ").chars().take(200).collect();
                        let jb = &jobs[i];
                        let line = json!({
                            "t": "big", "family": jb.family, "pattern": jb.pattern, "n": sizes.iter().max(), "jobs": 1,
                            "shape": "crash", "pos": 1, "calls": 0,
                            "bad": [{"call": "process", "job": "", "res": "crash", "msg": format!("{:?} {}", o.status, msg)}],
                            "maxdepth": 0, "maxwaves": 0, "fin": false, "dead": true, "stalled": false, "aborted": false,
                            "nh": "dead", "nhmsg": "", "started": 0, "startedA": 0, "startedO": 0, "startedE": 0,
                            "succeeded": 0, "faildel": 0, "failed": 0, "upf": 0, "ready": 0, "running": 0, "outs": 0,
                            "histkeys": 0, "nA": 0, "nO": 0, "nE": 0});
                        let name = format!("{}/{}-j{:02}-crash.ndjson", out, tag, i);
                        std::fs::write(&name, format!("{}\n", line)).unwrap();
                        a.1.push(name);
                        a.2 += 1;
                        let cur = a.0.get("lines").and_then(|x| x.as_u64()).unwrap_or(0);
                        a.0.insert("lines".to_string(), json!(cur + 1));
                    }
                }
            }));
        }
        for h in handles {
            h.join().unwrap();
        }
        let a = agg.lock().unwrap();
        let mut files = a.1.clone();
        files.sort();
        let g = |k: &str| a.0.get(k).and_then(|x| x.as_u64()).unwrap_or(0);
        println!(
            "{}",
            json!({"family": "big", "universes": njobs * sizes.len(), "ctxs": g("ctxs"), "states": g("states"),
                   "transitions": g("transitions"), "ends": g("ends"), "truncated": 0, "misuse_calls": 0,
                   "big_evaluations": g("big_evaluations"), "crashed_groups": a.2, "lines": g("lines"), "files": files, "sizes": sizes})
        );
        return;
    }
    let jobs = Arc::new(jobs);
    let next = Arc::new(Mutex::new(0usize));
    let results = Arc::new(Mutex::new((0usize, vec![], Stats::default())));
    let mut handles = vec![];
    for t in 0..threads {
        let jobs = jobs.clone();
        let next = next.clone();
        let results = results.clone();
        let sizes = sizes.clone();
        let out = out.clone();
        let tag = tag.clone();
        handles.push(std::thread::Builder::new().stack_size(std::env::var("BIG_STACK_MB").ok().and_then(|x| x.parse::<usize>().ok()).unwrap_or(8) << 20).spawn(move || {
            std::panic::set_hook(Box::new(|_| {}));
            let mut wr = Writer::new(&out, &format!("{}-t{:02}", tag, t), 40000);
            let mut stats = Stats::default();
            let mut nbig = 0usize;
            loop {
                let i = {
                    let mut g = next.lock().unwrap();
                    let i = *g;
                    *g += 1;
                    i
                };
                if i >= jobs.len() {
                    break;
                }
                if let Some(o) = only {
                    if i != o {
                        continue;
                    }
                }
                let jb = &jobs[i];
                // one group per cascade shape: sizes ascending, written consecutively
                let shapes = ["first", "rerun", "invroot", "invleaf", "failroot", "abort", "resume"];
                let mut lines: BTreeMap<&str, Vec<serde_json::Value>> = BTreeMap::new();
                for &n in sizes.iter() {
                    let g = big_graph(&jb.family, n, &jb.pattern, jb.width);
                    let w0 = World::new(g.clone(), Cmp::Exact, Conv::Ids);
                    let nofail = BTreeSet::new();
                    let conc = 1 + (seed as usize + n) % 3;
                    // full traces for small sizes: the regular property clauses apply
                    if n <= full_upto {
                        let opts = Opts { abort: false, misuse: false, steps: false, max_states: 1000000, single: true, paths: 0, seed, reconsider: false };
                        let mut ex = Map::new();
                        ex.insert("fam".into(), json!(format!("big:{}:{}", jb.family, jb.pattern)));
                        let links = Links { pathkey: String::new(), exact: None, faultfree: true };
                        let r = explore_ctx(&mut wr, &w0, &EvalCfg::default(), &opts, &ex, &links, &mut stats);
                        if let Some(e) = r.ends.iter().find(|e| e.clean) {
                            let w1 = ppg2verif::chain::world_after(&w0, e);
                            let mut ex2 = ex.clone();
                            ex2.insert("prev".into(), json!(e.line));
                            ex2.insert("edit".into(), json!("none"));
                            explore_ctx(&mut wr, &w1, &EvalCfg::default(), &opts, &ex2, &links, &mut stats);
                            // invalidate root
                            let u = Universe { g: g.clone() };
                            let root = first_of(&g, &|k| k != Kind::E).unwrap();
                            let ed = if g.kind[&root] == Kind::A { Edit::Bump(root.clone()) } else { Edit::Delete(root.clone()) };
                            let w2 = apply_edit(&u, &w1, &ed);
                            let mut ex3 = ex.clone();
                            ex3.insert("prev".into(), json!(e.line));
                            ex3.insert("edit".into(), json!(ed.describe()));
                            explore_ctx(&mut wr, &w2, &EvalCfg::default(), &opts, &ex3, &links, &mut stats);
                            let mut cfg = EvalCfg::default();
                            cfg.fail.insert(root.clone());
                            explore_ctx(&mut wr, &w2, &cfg, &opts, &ex3, &links, &mut stats);
                        }
                        wr.scenario_boundary();
                    }
                    // summaries for every size
                    let first = run_big(&w0, &nofail, None, conc, seed, "first", &jb.family, n);
                    let ok = first.ok;
                    lines.entry("first").or_default().push(first.summary.clone());
                    if !ok {
                        continue;
                    }
                    let mut w1 = w0.clone();
                    w1.hist = first.hist1.clone();
                    w1.files = first.files1.clone();
                    w1.evalno = 2;
                    let rr = run_big(&w1, &nofail, None, conc, seed + 1, "rerun", &jb.family, n);
                    lines.entry("rerun").or_default().push(rr.summary);
                    let u = Universe { g: g.clone() };
                    let root = first_of(&g, &|k| k != Kind::E).unwrap();
                    let ed = if g.kind[&root] == Kind::A { Edit::Bump(root.clone()) } else { Edit::Delete(root.clone()) };
                    let w2 = apply_edit(&u, &w1, &ed);
                    let ir = run_big(&w2, &nofail, None, conc, seed + 2, "invroot", &jb.family, n);
                    lines.entry("invroot").or_default().push(ir.summary);
                    if let Some(leaf) = last_of(&g, &|k| k == Kind::O) {
                        let w3 = apply_edit(&u, &w1, &Edit::Delete(leaf));
                        let il = run_big(&w3, &nofail, None, conc, seed + 3, "invleaf", &jb.family, n);
                        lines.entry("invleaf").or_default().push(il.summary);
                    }
                    let mut fs = BTreeSet::new();
                    fs.insert(root.clone());
                    let fr = run_big(&w2, &fs, None, conc, seed + 4, "failroot", &jb.family, n);
                    lines.entry("failroot").or_default().push(fr.summary);
                    let half = g.kind.len() / 2;
                    let ab = run_big(&w0, &nofail, Some(half), conc, seed + 5, "abort", &jb.family, n);
                    let abok = ab.ok;
                    lines.entry("abort").or_default().push(ab.summary);
                    if abok {
                        let mut w4 = w0.clone();
                        w4.hist = ab.hist1.clone();
                        w4.files = ab.files1.clone();
                        w4.evalno = 2;
                        let rs = run_big(&w4, &nofail, None, conc, seed + 6, "resume", &jb.family, n);
                        lines.entry("resume").or_default().push(rs.summary);
                    }
                }
                for sh in shapes.iter() {
                    if let Some(v) = lines.get(sh) {
                        for (pos, mut l) in v.iter().cloned().enumerate() {
                            let o = l.as_object_mut().unwrap();
                            o.insert("pattern".into(), json!(jb.pattern));
                            o.insert("pos".into(), json!(pos + 1));
                            wr.emit(&l);
                            nbig += 1;
                        }
                    }
                }
                wr.scenario_boundary();
            }
            wr.close();
            let mut r = results.lock().unwrap();
            r.0 += nbig;
            r.1.extend(wr.files.iter().cloned());
            r.2.ctxs += stats.ctxs;
            r.2.states += stats.states;
            r.2.transitions += stats.transitions;
            r.2.ends += stats.ends;
        }).unwrap());
    }
    for h in handles {
        h.join().unwrap();
    }
    let r = results.lock().unwrap();
    let mut files = r.1.clone();
    files.sort();
    let lines: usize = files
        .iter()
        .map(|f| std::fs::read_to_string(f).map(|s| s.lines().count()).unwrap_or(0))
        .sum();
    println!(
        "{}",
        json!({"family": "big", "universes": jobs.len() * sizes.len(), "ctxs": r.2.ctxs, "states": r.2.states,
               "transitions": r.2.transitions, "ends": r.2.ends, "truncated": 0, "misuse_calls": 0,
               "big_evaluations": r.0, "lines": lines, "files": files, "sizes": sizes})
    );
}
