//! Scenario families. Usage: explore <family> key=value ... ; writes shards to out=<dir> and a
//! JSON summary to stdout.
use ppg2verif::chain::*;
use ppg2verif::explore::*;
use ppg2verif::world::*;
use serde_json::json;
use std::collections::{BTreeMap, BTreeSet};
use std::sync::{Arc, Mutex};

fn names(n: usize) -> Vec<String> {
    (0..n).map(|i| format!("N{}", i)).collect()
}

/// simple deterministic PRNG (xorshift64*)
pub struct Rng(u64);
impl Rng {
    pub fn new(seed: u64) -> Rng {
        Rng(seed.wrapping_mul(0x9E3779B97F4A7C15) | 1)
    }
    pub fn next(&mut self) -> u64 {
        let mut x = self.0;
        x ^= x >> 12;
        x ^= x << 25;
        x ^= x >> 27;
        self.0 = x;
        x.wrapping_mul(0x2545F4914F6CDD1D)
    }
    pub fn below(&mut self, n: usize) -> usize {
        (self.next() % (n as u64)) as usize
    }
}

fn graph_from_codes(n: usize, kcode: usize, ecode: usize, ucode: usize) -> Graph {
    let nm = names(n);
    let mut kind = BTreeMap::new();
    for i in 0..n {
        kind.insert(nm[i].clone(), Kind::from_idx((kcode / 3usize.pow(i as u32)) % 3));
    }
    let mut edges = BTreeSet::new();
    let mut p = 0;
    for a in 0..n {
        for b in (a + 1)..n {
            if ecode & (1 << p) != 0 {
                edges.insert((nm[a].clone(), nm[b].clone()));
            }
            p += 1;
        }
    }
    let mut g = Graph {
        kind,
        edges,
        needs: BTreeMap::new(),
        uses: BTreeMap::new(),
    };
    // uses: bit i of ucode set => job i ignores all of its inputs (constant job)
    for i in 0..n {
        let j = &nm[i];
        let mut s = BTreeSet::new();
        if ucode & (1 << i) == 0 {
            for u in g.ups(j) {
                for m in names_of(&u) {
                    s.insert(m);
                }
            }
        }
        g.uses.insert(j.clone(), s);
    }
    g.normalise_ids();
    g
}

/// the D8 family: an Ephemeral chain of length >= 2 feeding a non-Ephemeral consumer that has
/// another upstream
fn is_eph5(g: &Graph) -> bool {
    for (a, b) in g.edges.iter() {
        if g.kind[a] == Kind::E && g.kind[b] == Kind::E {
            for d in g.downs(b) {
                if g.kind[&d] != Kind::E && g.ups(&d).len() >= 2 {
                    return true;
                }
            }
        }
    }
    false
}

/// at least two Ephemeral jobs, one of which feeds a non-Ephemeral job: where the run-on-demand
/// logic has something to decide
fn has_two_eph(g: &Graph) -> bool {
    g.kind.values().filter(|k| **k == Kind::E).count() >= 2
        && g.edges.iter().any(|(a, b)| g.kind[a] == Kind::E && g.kind[b] != Kind::E)
}

fn parse_levels(s: &str) -> Vec<Level> {
    // levels separated by '/', each: letters of edit classes [dbne], f<k> maxfail, a abort, m misuse,
    // p<k> decl perms, k flaky ; e.g. "f1am/dbnef1a/db"
    s.split('/')
        .map(|l| {
            let mut lv = Level {
                edits: String::new(),
                maxfail: 0,
                abort: false,
                misuse: false,
                decls: 0,
                flaky: false,
                after_fail: false,
                pairs: false,
                reconsider: false,
            };
            let cs: Vec<char> = l.chars().collect();
            let mut i = 0;
            while i < cs.len() {
                match cs[i] {
                    'd' | 'b' | 'n' | 'e' | 'r' => lv.edits.push(cs[i]),
                    'f' => {
                        lv.maxfail = cs[i + 1].to_digit(10).unwrap() as usize;
                        i += 1;
                    }
                    'p' => {
                        lv.decls = cs[i + 1].to_digit(10).unwrap() as usize;
                        i += 1;
                    }
                    'a' => lv.abort = true,
                    'm' => lv.misuse = true,
                    'k' => lv.flaky = true,
                    'x' => lv.after_fail = true,
                    't' => lv.pairs = true,
                    'c' => lv.reconsider = true,
                    '-' => {}
                    x => panic!("bad level letter {}", x),
                }
                i += 1;
            }
            lv
        })
        .collect()
}

fn main() {
    std::panic::set_hook(Box::new(|_| {}));
    let args: Vec<String> = std::env::args().collect();
    let fam = args.get(1).cloned().unwrap_or_else(|| "exh".into());
    let mut kv: BTreeMap<String, String> = BTreeMap::new();
    for a in args.iter().skip(2) {
        if let Some((k, v)) = a.split_once('=') {
            kv.insert(k.to_string(), v.to_string());
        }
    }
    let get = |k: &str, d: &str| kv.get(k).cloned().unwrap_or_else(|| d.to_string());
    let n: usize = get("n", "3").parse().unwrap();
    let out = get("out", ".scratch/traces");
    let threads: usize = get("threads", "16").parse().unwrap();
    let levels = parse_levels(&get("levels", "f1a"));
    let shard_lines: usize = get("shard", "30000").parse().unwrap();
    let seed: u64 = get("seed", "1").parse().unwrap();
    let count: usize = get("count", "100").parse().unwrap();
    let cmps: Vec<Cmp> = match get("cmp", "exact").as_str() {
        "exact" => vec![Cmp::Exact],
        "nostamp" => vec![Cmp::IgnoreStamp],
        _ => vec![Cmp::Exact, Cmp::IgnoreStamp],
    };
    let usemode = get("uses", "all"); // all | both | mix
    // conv=names: production's convention (input lists are consumed output names; the comparison
    // looks at consumed names only); multi=1: each job with a consumer in turn becomes a
    // two-output job "Nk:::Nkx" of which the consumers need only "Nk"
    let conv = if get("conv", "ids") == "names" { Conv::Names } else { Conv::Ids };
    let multi = get("multi", "0") == "1";
    let filter = get("filter", "");
    let stride: usize = get("stride", "1").parse().unwrap();
    let spec = ChainSpec {
        levels,
        steps: get("steps", "1") == "1",
        max_states: get("maxstates", "20000").parse().unwrap(),
        fam: format!("{}:{}", fam, get("tag", "")),
        double_interrupt: get("double", "0") == "1",
        paths: get("paths", "0").parse().unwrap(),
        seed,
        max_universe_lines: get("ulines", "60000").parse().unwrap(),
    };
    std::fs::create_dir_all(&out).unwrap();

    // the list of universes
    let mut universes: Vec<(String, Graph)> = vec![];
    match fam.as_str() {
        "exh" => {
            let nedges = n * (n - 1) / 2;
            let mut idx = 0usize;
            for kcode in 0..3usize.pow(n as u32) {
                for ecode in 0..(1usize << nedges) {
                    let ucodes: Vec<usize> = match usemode.as_str() {
                        "all" => vec![0],
                        "none" => vec![(1 << n) - 1],
                        "both" => vec![0, (1 << n) - 1],
                        _ => (0..(1usize << n)).collect(),
                    };
                    for ucode in ucodes {
                        let g = graph_from_codes(n, kcode, ecode, ucode);
                        if filter == "eph5" && !is_eph5(&g) {
                            continue;
                        }
                        if filter == "eph2" && !has_two_eph(&g) {
                            continue;
                        }
                        idx += 1;
                        if idx % stride != (seed as usize) % stride {
                            continue;
                        }
                        if multi {
                            for j in names(n) {
                                if !g.downs(&j).is_empty() {
                                    let mut g2 = g.clone();
                                    g2.rename_job(&j, &format!("{}:::{}x", j, j));
                                    universes.push((format!("n{}k{}e{}u{}m{}", n, kcode, ecode, ucode, &j[1..]), g2));
                                }
                            }
                        } else {
                            universes.push((format!("n{}k{}e{}u{}", n, kcode, ecode, ucode), g));
                        }
                    }
                }
            }
        }
        "random" => {
            let mut rng = Rng::new(seed);
            let nedges = n * (n - 1) / 2;
            for i in 0..count {
                let kcode = rng.below(3usize.pow(n as u32));
                // sparse-ish edges: each with probability ~ 1/3..1/2
                let mut ecode = 0usize;
                for p in 0..nedges {
                    if rng.below(5) < 2 {
                        ecode |= 1 << p;
                    }
                }
                let ucode = if usemode == "all" { 0 } else { rng.below(1 << n) & rng.below(1 << n) };
                let g = graph_from_codes(n, kcode, ecode, ucode);
                universes.push((format!("r{}n{}k{}e{}u{}", i, n, kcode, ecode, ucode), g));
            }
        }
        "shapes" => {
            // explicit graphs: one "KINDS:a-b,c-d" per line of the file (# comments)
            let path = get("file", "/verif/harness/shapes.txt");
            let text = std::fs::read_to_string(&path).expect("shapes file");
            for (ln, line) in text.lines().enumerate() {
                let line = line.trim();
                if line.is_empty() || line.starts_with('#') {
                    continue;
                }
                let (kinds, edges) = line.split_once(':').unwrap_or((line, ""));
                let kinds: Vec<char> = kinds.chars().collect();
                let n = kinds.len();
                let mut kcode = 0;
                for (i, c) in kinds.iter().enumerate() {
                    let k = match c {
                        'A' => 0,
                        'O' => 1,
                        _ => 2,
                    };
                    kcode += k * 3usize.pow(i as u32);
                }
                let mut g = graph_from_codes(n, kcode, 0, 0);
                for e in edges.split(',').filter(|x| !x.is_empty()) {
                    let (a, b) = e.split_once('-').unwrap();
                    g.edges.insert((format!("N{}", a.trim()), format!("N{}", b.trim())));
                }
                for j in g.kind.keys().cloned().collect::<Vec<_>>() {
                    let mut s = BTreeSet::new();
                    for u in g.ups(&j) {
                        for m in names_of(&u) {
                            s.insert(m);
                        }
                    }
                    g.uses.insert(j, s);
                }
                g.normalise_ids();
                universes.push((format!("shape{}", ln + 1), g));
            }
        }
        "uid" => {
            // one universe of the exhaustive / random enumeration, by its id: [r<i>]n<N>k<K>e<E>u<U>
            let uid = get("uid", "");
            let body = match uid.find('n') {
                Some(i) => &uid[i..],
                None => panic!("bad uid"),
            };
            let num = |a: char, b: Option<char>| -> usize {
                let i = body.find(a).unwrap() + 1;
                let j = match b {
                    Some(b) => body[i..].find(b).unwrap() + i,
                    None => body.len(),
                };
                body[i..j].parse().unwrap()
            };
            let (body, m) = match body.find('m') {
                Some(i) => (&body[..i], Some(body[i + 1..].to_string())),
                None => (body, None),
            };
            let num = |a: char, b: Option<char>| -> usize {
                let i = body.find(a).unwrap() + 1;
                let j = match b {
                    Some(b) => body[i..].find(b).unwrap() + i,
                    None => body.len(),
                };
                body[i..j].parse().unwrap()
            };
            let mut g = graph_from_codes(num('n', Some('k')), num('k', Some('e')), num('e', Some('u')), num('u', None));
            if let Some(k) = m {
                g.rename_job(&format!("N{}", k), &format!("N{}:::N{}x", k, k));
            }
            universes.push((uid.clone(), g));
        }
        "one" => {
            // explicit: kinds=AOE.. edges=0-1,1-2 consts=2
            let kinds: Vec<char> = get("kinds", "OEO").chars().collect();
            let n = kinds.len();
            let mut kcode = 0;
            for (i, c) in kinds.iter().enumerate() {
                let k = match c {
                    'A' => 0,
                    'O' => 1,
                    _ => 2,
                };
                kcode += k * 3usize.pow(i as u32);
            }
            let mut g = graph_from_codes(n, kcode, 0, 0);
            for e in get("edges", "").split(',').filter(|x| !x.is_empty()) {
                let (a, b) = e.split_once('-').unwrap();
                g.edges.insert((format!("N{}", a), format!("N{}", b)));
            }
            // optional explicit ids (multi-output jobs: a:::b)
            let ids: Vec<String> = get("ids", "").split(',').filter(|x| !x.is_empty()).map(|x| x.to_string()).collect();
            if !ids.is_empty() {
                assert_eq!(ids.len(), n);
                let nm = names(n);
                let mut g2 = Graph { kind: BTreeMap::new(), edges: BTreeSet::new(), needs: BTreeMap::new(), uses: BTreeMap::new() };
                let map: BTreeMap<String, String> = nm.iter().cloned().zip(ids.iter().cloned()).collect();
                for (j, k) in g.kind.iter() {
                    g2.kind.insert(map[j].clone(), *k);
                }
                for (a, b) in g.edges.iter() {
                    g2.edges.insert((map[a].clone(), map[b].clone()));
                }
                g = g2;
            }
            for j in g.kind.keys().cloned().collect::<Vec<_>>() {
                let mut s = BTreeSet::new();
                for u in g.ups(&j) {
                    for m in names_of(&u) {
                        s.insert(m);
                    }
                }
                g.uses.insert(j, s);
            }
            g.normalise_ids();
            universes.push((format!("one-{}-{}", get("kinds", ""), get("edges", "")), g));
        }
        x => panic!("unknown family {}", x),
    }

    let universes = Arc::new(universes);
    let results: Arc<Mutex<Vec<(Stats, Vec<String>, usize)>>> = Arc::new(Mutex::new(vec![]));
    let next = Arc::new(Mutex::new(0usize));
    let mut handles = vec![];
    let tag = get("tag", &fam);
    for t in 0..threads {
        let universes = universes.clone();
        let results = results.clone();
        let spec = spec.clone();
        let out = out.clone();
        let cmps = cmps.clone();
        let next = next.clone();
        let tag = tag.clone();
        handles.push(std::thread::Builder::new().stack_size(1 << 30).spawn(move || {
            std::panic::set_hook(Box::new(|_| {}));
            let mut wr = Writer::new(&out, &format!("{}-t{:02}", tag, t), shard_lines);
            let mut stats = Stats::default();
            loop {
                let i = {
                    let mut g = next.lock().unwrap();
                    let i = *g;
                    *g += 1;
                    i
                };
                if i >= universes.len() {
                    break;
                }
                let (uid, g) = &universes[i];
                run_universe(&mut wr, &mut stats, &spec, g, conv, &cmps, uid);
            }
            wr.close();
            results.lock().unwrap().push((stats, wr.files.clone(), wr.total_lines));
        }).unwrap());
    }
    for h in handles {
        h.join().unwrap();
    }
    let mut tot = Stats::default();
    let mut files = vec![];
    let mut lines = 0;
    for (s, f, l) in results.lock().unwrap().iter() {
        tot.ctxs += s.ctxs;
        tot.states += s.states;
        tot.transitions += s.transitions;
        tot.ends += s.ends;
        tot.truncated += s.truncated;
        tot.misuse += s.misuse;
        files.extend(f.iter().cloned());
        lines += l;
    }
    files.sort();
    println!(
        "{}",
        json!({"family": fam, "universes": universes.len(), "ctxs": tot.ctxs, "states": tot.states,
               "transitions": tot.transitions, "ends": tot.ends, "truncated": tot.truncated,
               "misuse_calls": tot.misuse, "lines": lines, "files": files})
    );
}
