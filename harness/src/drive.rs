//! Drives the real engine through one evaluation and records its observable state.
use crate::world::*;
use pypipegraph2::verif::{drain_log, set_logging, GraphType, JobOutputResult, NodeInfo, VerifEvent};
use pypipegraph2::{JobKind, PPGEvaluator, PPGEvaluatorError, PPGEvaluatorStrategy};
use serde_json::{json, Map, Value};
use std::cell::RefCell;
use std::collections::{BTreeMap, BTreeSet, HashMap, HashSet};
use std::panic::{catch_unwind, AssertUnwindSafe};
use std::rc::Rc;

pub struct Strat {
    pub present: Rc<RefCell<HashSet<String>>>,
    pub cmp: Cmp,
    pub conv: Conv,
    pub needs: BTreeMap<String, BTreeSet<String>>,
}

impl PPGEvaluatorStrategy for Strat {
    fn output_already_present(&self, q: &str) -> bool {
        self.present.borrow().contains(q)
    }
    fn is_history_altered(&self, _u: &str, d: &str, last: &str, cur: &str) -> bool {
        altered(self.cmp, self.conv, self.needs.get(d), last, cur)
    }
    fn get_input_list(&self, idx: usize, dag: &GraphType, jobs: &[NodeInfo]) -> String {
        match self.conv {
            Conv::Ids => {
                let mut names = Vec::new();
                for u in dag.neighbors_directed(idx, petgraph::Direction::Incoming) {
                    names.push(jobs[u].verif_job_id());
                }
                names.sort();
                names.join("\n")
            }
            Conv::Names => {
                let me = jobs[idx].verif_job_id();
                let names: Vec<String> = self
                    .needs
                    .get(me)
                    .map(|s| s.iter().cloned().collect())
                    .unwrap_or_default();
                names.join("\n")
            }
        }
    }
}

#[derive(Clone, Debug, PartialEq, Eq, Hash, PartialOrd, Ord)]
pub enum Call {
    Start(String),
    Succeed(String),
    Fail(String),
    /// fail a running job on the way to an abort (python runner: runner.py fails running jobs first)
    FailX(String),
    Cleanup(String),
    Abort,
    /// reconsider_all_jobs(): a public debugging aid of the engine; legal at any time
    Reconsider,
    // illegal calls (C20)
    BadStart(String),
    BadSucceed(String),
    BadFail(String),
    BadCleanup(String),
    BadStartup,
}

impl Call {
    pub fn name(&self) -> &'static str {
        match self {
            Call::Start(_) => "start",
            Call::Succeed(_) => "success",
            Call::Fail(_) => "fail",
            Call::FailX(_) => "failx",
            Call::Cleanup(_) => "cleanup",
            Call::Abort => "abort",
            Call::Reconsider => "reconsider",
            Call::BadStart(_) => "badstart",
            Call::BadSucceed(_) => "badsuccess",
            Call::BadFail(_) => "badfail",
            Call::BadCleanup(_) => "badcleanup",
            Call::BadStartup => "badstartup",
        }
    }
    pub fn job(&self) -> &str {
        match self {
            Call::Start(j)
            | Call::Succeed(j)
            | Call::Fail(j)
            | Call::FailX(j)
            | Call::Cleanup(j)
            | Call::BadStart(j)
            | Call::BadSucceed(j)
            | Call::BadFail(j)
            | Call::BadCleanup(j) => j,
            Call::Abort | Call::BadStartup | Call::Reconsider => "",
        }
    }
    pub fn is_misuse(&self) -> bool {
        self.name().starts_with("bad")
    }
    pub fn to_json(&self) -> Value {
        json!({"name": self.name(), "job": self.job()})
    }
    pub fn from_json(v: &Value) -> Call {
        let j = v["job"].as_str().unwrap_or("").to_string();
        match v["name"].as_str().unwrap() {
            "start" => Call::Start(j),
            "success" => Call::Succeed(j),
            "fail" => Call::Fail(j),
            "failx" => Call::FailX(j),
            "cleanup" => Call::Cleanup(j),
            "abort" => Call::Abort,
            "reconsider" => Call::Reconsider,
            "badstart" => Call::BadStart(j),
            "badsuccess" => Call::BadSucceed(j),
            "badfail" => Call::BadFail(j),
            "badcleanup" => Call::BadCleanup(j),
            "badstartup" => Call::BadStartup,
            x => panic!("unknown call {}", x),
        }
    }
}

#[derive(Clone, Debug, Default, PartialEq, Eq, Hash, PartialOrd, Ord)]
pub struct EvalCfg {
    pub fail: BTreeSet<String>,
    pub flaky: BTreeMap<String, Flaky>,
    /// permutation number for the declaration order of nodes / edges
    pub decl: usize,
}

/// result class of a call
pub fn classify<T>(r: std::thread::Result<Result<T, PPGEvaluatorError>>) -> (String, String, Option<T>) {
    match r {
        Ok(Ok(x)) => ("ok".into(), String::new(), Some(x)),
        Ok(Err(PPGEvaluatorError::APIError(m))) => ("api".into(), m, None),
        Ok(Err(PPGEvaluatorError::EphemeralChangedOutput { job_id, .. })) => {
            ("changed".into(), job_id, None)
        }
        Ok(Err(PPGEvaluatorError::InternalError(m))) => ("internal".into(), m, None),
        Err(p) => {
            let msg = if let Some(s) = p.downcast_ref::<&str>() {
                s.to_string()
            } else if let Some(s) = p.downcast_ref::<String>() {
                s.clone()
            } else {
                "panic".to_string()
            };
            ("panic".into(), msg, None)
        }
    }
}

/// everything the driver did and saw so far in this evaluation (the history variables of
/// the properties; their update rule is re-checked by TLC on every recorded transition)
#[derive(Clone, Debug, Default)]
pub struct Book {
    pub started: BTreeSet<String>,
    pub succ: BTreeSet<String>,
    pub faildel: BTreeSet<String>,
    pub changed: BTreeSet<String>,
    pub cleaned: BTreeSet<String>,
    pub offered: BTreeSet<String>,
    pub coffered: BTreeSet<String>,
    /// jobs the hook log has seen entering a skipped state in this evaluation
    pub skipev: BTreeSet<String>,
    pub rep: BTreeMap<String, Value>,
    /// per started job, per direct upstream: world content consumed ("w") and the engine's
    /// current output of that upstream at that moment ("e")
    pub cons: BTreeMap<String, Value>,
    pub file: BTreeMap<String, String>,
    pub temp: BTreeMap<String, String>,
    pub aval: BTreeMap<String, String>,
    pub aborted: bool,
    pub aborting: bool,
    pub rab: BTreeSet<String>,
    pub dead: bool, // engine panicked or reported an internal error: nothing more is done to it
}

pub struct Run<'a> {
    pub w: &'a World,
    pub cfg: &'a EvalCfg,
    pub g: PPGEvaluator<Strat>,
    pub b: Book,
    pub pending: BTreeMap<String, Value>,
    pub last_steps: Vec<VerifEvent>,
}

fn kth_permutation<T: Clone>(items: &[T], mut k: usize) -> Vec<T> {
    let mut src: Vec<T> = items.to_vec();
    let mut out = Vec::new();
    let mut n = src.len();
    while n > 0 {
        let i = k % n;
        k /= n;
        out.push(src.remove(i));
        n -= 1;
    }
    out
}

fn set_json(s: &BTreeSet<String>) -> Value {
    Value::Array(s.iter().map(|x| json!(x)).collect())
}
fn hs_json(s: HashSet<String>) -> Value {
    let b: BTreeSet<String> = s.into_iter().collect();
    set_json(&b)
}
fn map_content_json(m: &BTreeMap<String, String>) -> Value {
    let mut o = Map::new();
    for (k, v) in m {
        o.insert(k.clone(), parse_content(v));
    }
    Value::Object(o)
}
pub fn hist_json(h: &BTreeMap<String, String>) -> Value {
    let mut o = Map::new();
    for (k, v) in h {
        if k.ends_with("!!!") {
            let names: Vec<Value> = if v.is_empty() {
                vec![]
            } else {
                v.split('\n').map(|x| json!(x)).collect()
            };
            o.insert(k.clone(), json!({ "names": names }));
        } else {
            o.insert(k.clone(), parse_value(v));
        }
    }
    Value::Object(o)
}

impl<'a> Run<'a> {
    /// declare the graph and start the evaluation. Returns the result class of event_startup.
    pub fn begin(w: &'a World, cfg: &'a EvalCfg, steps: bool) -> (Run<'a>, String, String) {
        let present: HashSet<String> = w.files.keys().cloned().collect();
        let strat = Strat {
            present: Rc::new(RefCell::new(present)),
            cmp: w.cmp,
            conv: w.conv,
            needs: w.g.needs.clone(),
        };
        let hist: HashMap<String, String> = w.hist.iter().map(|(k, v)| (k.clone(), v.clone())).collect();
        let mut g = PPGEvaluator::new_with_history(hist, strat);
        let nodes: Vec<(String, Kind)> = w.g.kind.iter().map(|(k, v)| (k.clone(), *v)).collect();
        let nodes = kth_permutation(&nodes, cfg.decl);
        for (j, k) in nodes {
            g.add_node(
                &j,
                match k {
                    Kind::A => JobKind::Always,
                    Kind::O => JobKind::Output,
                    Kind::E => JobKind::Ephemeral,
                },
            );
        }
        let edges: Vec<(String, String)> = w.g.edges.iter().cloned().collect();
        let edges = kth_permutation(&edges, cfg.decl / 7);
        for (u, d) in edges {
            g.depends_on(&d, &u);
        }
        let mut b = Book::default();
        b.file = w.files.clone();
        let _ = steps;
        set_logging(true);
        drain_log();
        let r = catch_unwind(AssertUnwindSafe(|| g.event_startup()));
        let (cls, msg, _) = classify(r);
        let mut run = Run {
            w,
            cfg,
            g,
            b,
            pending: BTreeMap::new(),
            last_steps: drain_log(),
        };
        if cls == "internal" || cls == "panic" {
            run.b.dead = true;
        }
        run.observe();
        (run, cls, msg)
    }

    /// update offeredEver / cleanupOfferedEver from what the engine reports now
    fn observe(&mut self) {
        for e in self.last_steps.iter() {
            if let VerifEvent::State { job, to, .. } = e {
                if to.contains("FinishedSkipped") || to == "Pruned" {
                    self.b.skipev.insert(job.clone());
                }
            }
        }
        if self.b.dead {
            return;
        }
        let r = catch_unwind(AssertUnwindSafe(|| {
            (self.g.query_ready_to_run(), self.g.query_ready_for_cleanup())
        }));
        if let Ok((ready, cl)) = r {
            for j in ready {
                self.b.offered.insert(j);
            }
            for j in cl {
                self.b.coffered.insert(j);
            }
        }
    }

    fn engine_out(&self, j: &str) -> Option<Value> {
        match self.g.get_job_output(j) {
            JobOutputResult::Done(v) => Some(parse_value(&v)),
            _ => None,
        }
    }

    /// legal calls in the current state
    pub fn legal_calls(&self, allow_abort: bool) -> Vec<Call> {
        let mut out = vec![];
        if self.b.dead {
            return out;
        }
        let cleanup: BTreeSet<String> = self.g.query_ready_for_cleanup().into_iter().collect();
        if snapshot_finished(&self.g) {
            // a finished evaluation: outstanding cleanups may still be acknowledged
            for j in cleanup {
                out.push(Call::Cleanup(j));
            }
            return out;
        }
        let ready: BTreeSet<String> = self.g.query_ready_to_run().into_iter().collect();
        let running: BTreeSet<String> = self.g.query_jobs_running().into_iter().collect();
        if self.b.aborting {
            if let Some(j) = running.iter().next() {
                out.push(Call::FailX(j.clone()));
            } else {
                out.push(Call::Abort);
            }
            return out;
        }
        for j in ready {
            out.push(Call::Start(j));
        }
        for j in running.iter() {
            if self.cfg.fail.contains(j) {
                out.push(Call::Fail(j.clone()));
            } else {
                out.push(Call::Succeed(j.clone()));
            }
        }
        for j in cleanup {
            out.push(Call::Cleanup(j));
        }
        if allow_abort {
            out.push(Call::Abort);
            if let Some(j) = running.iter().next() {
                out.push(Call::FailX(j.clone()));
            }
        }
        out
    }

    /// illegal calls in the current state (every known job)
    pub fn illegal_calls(&self) -> Vec<Call> {
        let mut out = vec![Call::BadStartup];
        if self.b.dead {
            return vec![];
        }
        let ready: BTreeSet<String> = self.g.query_ready_to_run().into_iter().collect();
        let running: BTreeSet<String> = self.g.query_jobs_running().into_iter().collect();
        let cleanup: BTreeSet<String> = self.g.query_ready_for_cleanup().into_iter().collect();
        for j in self.w.g.kind.keys() {
            if !ready.contains(j) {
                out.push(Call::BadStart(j.clone()));
            }
            if !running.contains(j) {
                out.push(Call::BadSucceed(j.clone()));
                out.push(Call::BadFail(j.clone()));
            }
            if !cleanup.contains(j) {
                out.push(Call::BadCleanup(j.clone()));
            }
        }
        out
    }

    /// perform one driver call; returns (result class, message)
    pub fn call(&mut self, c: &Call) -> (String, String) {
        drain_log();
        let (cls, msg) = self.call_inner(c);
        self.last_steps = drain_log();
        if cls == "internal" || cls == "panic" {
            self.b.dead = true;
        }
        self.observe();
        (cls, msg)
    }

    fn call_inner(&mut self, c: &Call) -> (String, String) {
        match c {
            Call::Start(j) | Call::BadStart(j) => {
                let bad = c.is_misuse();
                if !bad {
                    // what the job will read
                    let mut inputs: BTreeMap<String, Value> = BTreeMap::new();
                    let mut cons = Map::new();
                    for u in self.w.g.ups(j) {
                        let src = match self.w.g.kind[&u] {
                            Kind::O => self.b.file.get(&u),
                            Kind::E => self.b.temp.get(&u),
                            Kind::A => self.b.aval.get(&u),
                        };
                        let wv = parse_content(src.map(|x| x.as_str()).unwrap_or(MISSING));
                        inputs.insert(u.clone(), wv.clone());
                        let mut rec = Map::new();
                        rec.insert("w".into(), wv);
                        if let Some(e) = self.engine_out(&u) {
                            rec.insert("e".into(), e);
                        }
                        cons.insert(u.clone(), Value::Object(rec));
                    }
                    let nonce = match self.cfg.flaky.get(j) {
                        Some(Flaky::Nonce) => Some(self.w.evalno),
                        None => None,
                    };
                    let content = self.w.content(j, &inputs, nonce);
                    self.pending.insert(j.clone(), content);
                    self.b.cons.insert(j.clone(), Value::Object(cons));
                }
                let r = catch_unwind(AssertUnwindSafe(|| self.g.event_now_running(j)));
                let (cls, msg, _) = classify(r);
                if cls == "ok" && !bad {
                    self.b.started.insert(j.clone());
                    if self.w.g.kind[j] == Kind::O {
                        // the job is writing its output now
                        self.b.file.insert(j.clone(), GARBAGE.to_string());
                    }
                }
                (cls, msg)
            }
            Call::Succeed(j) => {
                let content = self.pending.get(j).cloned().unwrap_or(json!({"NOTSTARTED": true}));
                let rep = self.w.report(&content);
                match self.w.g.kind[j] {
                    Kind::O => {
                        self.b.file.insert(j.clone(), content.to_string());
                    }
                    Kind::E => {
                        self.b.temp.insert(j.clone(), content.to_string());
                    }
                    Kind::A => {
                        self.b.aval.insert(j.clone(), content.to_string());
                    }
                }
                self.b.rep.insert(j.clone(), parse_value(&rep));
                let r = catch_unwind(AssertUnwindSafe(|| {
                    self.g.event_job_finished_success(j, rep.clone())
                }));
                let (cls, msg, _) = classify(r);
                if cls == "ok" {
                    self.b.succ.insert(j.clone());
                } else if cls == "changed" {
                    self.b.changed.insert(j.clone());
                }
                (cls, msg)
            }
            Call::BadSucceed(j) => {
                let r = catch_unwind(AssertUnwindSafe(|| {
                    self.g.event_job_finished_success(j, "{\"c\":{\"BOGUS\":true}}".to_string())
                }));
                let (cls, msg, _) = classify(r);
                (cls, msg)
            }
            Call::Fail(j) | Call::FailX(j) | Call::BadFail(j) => {
                if let Call::FailX(_) = c {
                    self.b.aborting = true;
                }
                let r = catch_unwind(AssertUnwindSafe(|| self.g.event_job_finished_failure(j)));
                let (cls, msg, _) = classify(r);
                if cls == "ok" && !c.is_misuse() {
                    self.b.faildel.insert(j.clone());
                }
                (cls, msg)
            }
            Call::Cleanup(j) | Call::BadCleanup(j) => {
                let r = catch_unwind(AssertUnwindSafe(|| self.g.event_job_cleanup_done(j)));
                let (cls, msg, _) = classify(r);
                if cls == "ok" && !c.is_misuse() {
                    self.b.temp.remove(j);
                    self.b.cleaned.insert(j.clone());
                }
                (cls, msg)
            }
            Call::Abort => {
                let running: BTreeSet<String> = self.g.query_jobs_running().into_iter().collect();
                let r = catch_unwind(AssertUnwindSafe(|| self.g.abort_remaining()));
                let (cls, msg, _) = classify(r);
                self.b.aborted = true;
                self.b.aborting = false;
                self.b.rab = running;
                (cls, msg)
            }
            Call::Reconsider => {
                let r = catch_unwind(AssertUnwindSafe(|| self.g.reconsider_all_jobs()));
                let (cls, msg, _) = classify(r);
                (cls, msg)
            }
            Call::BadStartup => {
                let r = catch_unwind(AssertUnwindSafe(|| self.g.event_startup()));
                let (cls, msg, _) = classify(r);
                (cls, msg)
            }
        }
    }

    pub fn is_finished(&mut self) -> bool {
        if self.b.dead {
            return true;
        }
        catch_unwind(AssertUnwindSafe(|| self.g.is_finished())).unwrap_or(true)
    }

    /// the observable state (engine reports + hook snapshot + driver bookkeeping) as JSON
    pub fn state_json(&mut self) -> Value {
        let mut o = Map::new();
        o.insert("t".into(), json!("st"));
        if self.b.dead {
            o.insert("dead".into(), json!(true));
        } else {
            o.insert("dead".into(), json!(false));
        }
        let fin = self.is_finished();
        o.insert("fin".into(), json!(fin));
        let ok = !self.b.dead;
        let q = |f: &dyn Fn() -> HashSet<String>| -> Value {
            if ok {
                match catch_unwind(AssertUnwindSafe(f)) {
                    Ok(s) => hs_json(s),
                    Err(_) => json!([]),
                }
            } else {
                json!([])
            }
        };
        o.insert("ready".into(), q(&|| self.g.query_ready_to_run()));
        o.insert("running".into(), q(&|| self.g.query_jobs_running()));
        o.insert("cleanup".into(), q(&|| self.g.query_ready_for_cleanup()));
        o.insert("failed".into(), q(&|| self.g.query_failed()));
        o.insert("upf".into(), q(&|| self.g.query_upstream_failed()));
        let mut outs = Map::new();
        let mut jst = Map::new();
        let mut ereq = Map::new();
        let mut einv = Map::new();
        let mut indag = vec![];
        if ok {
            for j in self.w.g.kind.keys() {
                if let Some(v) = self.engine_out(j) {
                    outs.insert(j.clone(), v);
                }
            }
            let snap = self.g.verif_snapshot();
            o.insert("phase".into(), json!(snap.phase));
            o.insert("qlen".into(), json!(snap.queue.len()));
            for j in snap.jobs.iter() {
                jst.insert(j.job_id.clone(), json!(short_state(&j.state)));
                if j.in_dag {
                    indag.push(json!(j.job_id));
                }
            }
            indag.sort_by(|a, b| a.as_str().cmp(&b.as_str()));
            // jobs already (re)considered in the current generation: the only way the engine's
            // generation counter influences its behaviour (spec/PPGEngine.tla, cgen)
            let mut cgen: Vec<String> = snap
                .jobs
                .iter()
                .filter(|j| j.last_considered_in_gen == snap.gen)
                .map(|j| j.job_id.clone())
                .collect();
            cgen.sort();
            o.insert("cgen".into(), json!(cgen));
            // the engine's own record of which jobs were started (it decides what new_history keeps)
            let mut est: Vec<String> = snap.jobs.iter().filter(|j| j.was_started).map(|j| j.job_id.clone()).collect();
            est.sort();
            o.insert("estarted".into(), json!(est));
            for (u, d, r, i) in snap.edges.iter() {
                ereq.insert(format!("{}!!!{}", u, d), json!(r));
                einv.insert(format!("{}!!!{}", u, d), json!(i));
            }
        } else {
            o.insert("phase".into(), json!("Dead"));
            o.insert("qlen".into(), json!(0));
            o.insert("cgen".into(), json!([]));
            o.insert("estarted".into(), json!([]));
        }
        o.insert("outs".into(), Value::Object(outs));
        o.insert("jst".into(), Value::Object(jst));
        o.insert("ereq".into(), Value::Object(ereq));
        o.insert("einv".into(), Value::Object(einv));
        o.insert("indag".into(), Value::Array(indag));
        let b = &self.b;
        o.insert("started".into(), set_json(&b.started));
        o.insert("succ".into(), set_json(&b.succ));
        o.insert("faildel".into(), set_json(&b.faildel));
        o.insert("changed".into(), set_json(&b.changed));
        o.insert("cleaned".into(), set_json(&b.cleaned));
        o.insert("offered".into(), set_json(&b.offered));
        o.insert("coffered".into(), set_json(&b.coffered));
        o.insert("skipev".into(), set_json(&b.skipev));
        o.insert("rep".into(), Value::Object(b.rep.iter().map(|(k, v)| (k.clone(), v.clone())).collect()));
        o.insert("cons".into(), Value::Object(b.cons.iter().map(|(k, v)| (k.clone(), v.clone())).collect()));
        o.insert("file".into(), map_content_json(&b.file));
        o.insert("temp".into(), map_content_json(&b.temp));
        o.insert("aval".into(), map_content_json(&b.aval));
        o.insert("aborted".into(), json!(b.aborted));
        o.insert("aborting".into(), json!(b.aborting));
        o.insert("rab".into(), set_json(&b.rab));
        Value::Object(o)
    }

    /// new_history of a finished evaluation: (class, msg, history)
    pub fn new_history(&mut self) -> (String, String, BTreeMap<String, String>) {
        if self.b.dead {
            return ("dead".into(), String::new(), BTreeMap::new());
        }
        let r = catch_unwind(AssertUnwindSafe(|| self.g.new_history()));
        let (cls, msg, h) = classify(r);
        (
            cls,
            msg,
            h.map(|h| h.into_iter().collect()).unwrap_or_default(),
        )
    }

    /// iteration orders of the pruned dag (hook snapshot): what spec/PPGEngine.tla calls `ord`
    pub fn ord_json(&self) -> Value {
        if self.b.dead {
            return json!({"up": {}, "dn": {}, "nodes": [], "jobs": [], "topo": []});
        }
        let snap = self.g.verif_snapshot();
        let mut up = Map::new();
        let mut dn = Map::new();
        let mut jobs = vec![];
        for (j, u, d) in snap.order.iter() {
            up.insert(j.clone(), json!(u));
            dn.insert(j.clone(), json!(d));
            jobs.push(json!(j));
        }
        json!({"up": up, "dn": dn, "nodes": snap.dag_nodes, "jobs": jobs, "topo": snap.topo})
    }

    pub fn steps_json(&self) -> Value {
        Value::Array(
            self.last_steps
                .iter()
                .map(|e| match e {
                    VerifEvent::Wave { depth } => json!(["wave", depth.to_string(), "", ""]),
                    VerifEvent::Signal { kind, job } => json!(["sig", kind, job, ""]),
                    VerifEvent::Push { kind, job } => json!(["push", kind, job, ""]),
                    VerifEvent::State { job, from, to } => {
                        json!(["st", job, short_state(from), short_state(to)])
                    }
                })
                .collect(),
        )
    }
}

// is_finished takes &mut self (it latches the phase); legal_calls only has &self. The snapshot's
// per-job states give the same answer without latching.
fn snapshot_finished(g: &PPGEvaluator<Strat>) -> bool {
    let snap = g.verif_snapshot();
    match snap.phase {
        "NotStarted" => false,
        "Finished" => true,
        _ => snap.jobs.iter().all(|j| is_finished_state(&short_state(&j.state))),
    }
}

pub fn snapshot_finished_pub(run: &Run) -> bool {
    snapshot_finished(&run.g)
}

pub fn is_finished_state(s: &str) -> bool {
    s.contains("Finished")
}

/// "Output(NotReady(Unknown))" -> "NotReady(Unknown)" ; the kind is in the graph
pub fn short_state(s: &str) -> String {
    if s == "Pruned" {
        return s.to_string();
    }
    match s.find('(') {
        Some(i) => {
            let kind = &s[..i];
            let rest = &s[i + 1..s.len() - 1];
            format!("{}:{}", &kind[..1], rest)
        }
        None => s.to_string(),
    }
}
