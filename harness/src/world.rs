//! World model around the engine: graphs, job behaviours, values, files, edits.
//! Identical (by construction) to the world model of spec/PPGRef.tla; TLC re-checks every
//! logged execution against `Beh`, so this file is not trusted for what a job produced.
use serde_json::{json, Map, Value};
use std::collections::{BTreeMap, BTreeSet};

#[derive(Clone, Copy, PartialEq, Eq, Hash, Debug, PartialOrd, Ord)]
pub enum Kind {
    A,
    O,
    E,
}
impl Kind {
    pub fn s(&self) -> &'static str {
        match self {
            Kind::A => "A",
            Kind::O => "O",
            Kind::E => "E",
        }
    }
    pub fn from_idx(i: usize) -> Kind {
        [Kind::A, Kind::O, Kind::E][i]
    }
}

#[derive(Clone, Copy, PartialEq, Eq, Hash, Debug, PartialOrd, Ord)]
pub enum Cmp {
    Exact,
    IgnoreStamp,
}
#[derive(Clone, Copy, PartialEq, Eq, Hash, Debug, PartialOrd, Ord)]
pub enum Conv {
    Ids,
    Names,
}

/// how a flaky ephemeral misbehaves when re-executed
#[derive(Clone, Copy, PartialEq, Eq, Hash, Debug, PartialOrd, Ord)]
pub enum Flaky {
    /// content carries the evaluation number: the comparison sees it
    Nonce,
}

pub fn names_of(job: &str) -> Vec<String> {
    job.split(":::").map(|x| x.to_string()).collect()
}

#[derive(Clone, Debug, PartialEq, Eq, Hash, PartialOrd, Ord)]
pub struct Graph {
    pub kind: BTreeMap<String, Kind>,
    /// (upstream, downstream)
    pub edges: BTreeSet<(String, String)>,
    /// output names a job declares as inputs. Only meaningful under Conv::Names, where it decides
    /// the input list and what the comparison looks at; under Conv::Ids it is derived (all names
    /// of all upstreams).
    pub needs: BTreeMap<String, BTreeSet<String>>,
    /// output names a job's behaviour really depends on (subset of needs)
    pub uses: BTreeMap<String, BTreeSet<String>>,
}

impl Graph {
    pub fn ups(&self, j: &str) -> Vec<String> {
        self.edges
            .iter()
            .filter(|(_, d)| d == j)
            .map(|(u, _)| u.clone())
            .collect()
    }
    pub fn downs(&self, j: &str) -> Vec<String> {
        self.edges
            .iter()
            .filter(|(u, _)| u == j)
            .map(|(_, d)| d.clone())
            .collect()
    }
    pub fn producer(&self, name: &str) -> Option<String> {
        self.kind
            .keys()
            .find(|j| names_of(j).iter().any(|n| n == name))
            .cloned()
    }
    pub fn ups_map(&self) -> BTreeMap<String, Vec<String>> {
        let mut m: BTreeMap<String, Vec<String>> = self.kind.keys().map(|j| (j.clone(), vec![])).collect();
        for (u, d) in self.edges.iter() {
            m.entry(d.clone()).or_default().push(u.clone());
        }
        m
    }
    /// fill needs with "everything of every upstream" and restrict uses accordingly
    pub fn normalise_ids(&mut self) {
        let um = self.ups_map();
        for (j, ups) in um.iter() {
            let mut all = BTreeSet::new();
            for u in ups {
                for n in names_of(u) {
                    all.insert(n);
                }
            }
            let uses = self.uses.entry(j.clone()).or_default();
            uses.retain(|n| all.contains(n));
            self.needs.insert(j.clone(), all);
        }
        self.needs.retain(|j, _| self.kind.contains_key(j));
        self.uses.retain(|j, _| self.kind.contains_key(j));
    }
    /// `Names` convention: every consumer needs the FIRST output name of each of its upstreams (so
    /// a multi-output upstream gaining or losing one of its other outputs leaves its consumers'
    /// input-name lists alone); `uses` is restricted accordingly
    pub fn normalise_names(&mut self) {
        let um = self.ups_map();
        for (j, ups) in um.iter() {
            let mut all = BTreeSet::new();
            for u in ups {
                all.insert(names_of(u)[0].clone());
            }
            let uses = self.uses.entry(j.clone()).or_default();
            uses.retain(|n| all.contains(n));
            self.needs.insert(j.clone(), all);
        }
        self.needs.retain(|j, _| self.kind.contains_key(j));
        self.uses.retain(|j, _| self.kind.contains_key(j));
    }
    /// give a job another id (multi-output jobs are named after their outputs)
    pub fn rename_job(&mut self, old: &str, new: &str) {
        if let Some(k) = self.kind.remove(old) {
            self.kind.insert(new.to_string(), k);
        }
        let es: Vec<(String, String)> = self.edges.iter().cloned().collect();
        self.edges.clear();
        for (a, b) in es {
            let a2 = if a == old { new.to_string() } else { a };
            let b2 = if b == old { new.to_string() } else { b };
            self.edges.insert((a2, b2));
        }
        if let Some(x) = self.uses.remove(old) {
            self.uses.insert(new.to_string(), x);
        }
        if let Some(x) = self.needs.remove(old) {
            self.needs.insert(new.to_string(), x);
        }
    }
    /// topological order (Kahn, ties in id order)
    pub fn topo(&self) -> Vec<String> {
        let um = self.ups_map();
        let mut indeg: BTreeMap<String, usize> = um.iter().map(|(j, u)| (j.clone(), u.len())).collect();
        let mut downs: BTreeMap<String, Vec<String>> = BTreeMap::new();
        for (u, d) in self.edges.iter() {
            downs.entry(u.clone()).or_default().push(d.clone());
        }
        let mut ready: BTreeSet<String> = indeg.iter().filter(|(_, n)| **n == 0).map(|(j, _)| j.clone()).collect();
        let mut done = Vec::new();
        while let Some(j) = ready.iter().next().cloned() {
            ready.remove(&j);
            if let Some(ds) = downs.get(&j) {
                for d in ds {
                    let e = indeg.get_mut(d).unwrap();
                    *e -= 1;
                    if *e == 0 {
                        ready.insert(d.clone());
                    }
                }
            }
            done.push(j);
        }
        assert_eq!(done.len(), self.kind.len(), "cycle");
        done
    }
}

#[derive(Clone, Debug, PartialEq, Eq, Hash, PartialOrd, Ord)]
pub struct World {
    pub g: Graph,
    /// external version of Always jobs
    pub ver: BTreeMap<String, u32>,
    pub hist: BTreeMap<String, String>,
    /// content (json text of the content map) of existing output files
    pub files: BTreeMap<String, String>,
    /// number of the evaluation about to run (stamp of everything it reports)
    pub evalno: u32,
    pub cmp: Cmp,
    pub conv: Conv,
    /// some job behaved non-deterministically earlier in this chain (flaky Ephemeral): the
    /// clean-build comparison of C01 does not apply to worlds derived from it
    pub tainted: bool,
    /// ground truth kept by the world, independent of the engine's records: per job, the output
    /// of each direct upstream that its last successful execution consumed ...
    pub built: BTreeMap<String, BTreeMap<String, String>>,
    /// ... and the jobs a failed or interrupted attempt has touched since
    pub dirty: BTreeSet<String>,
}

pub const GARBAGE: &str = "{\"GARBAGE\":true}";
pub const MISSING: &str = "{\"MISSING\":true}";

impl World {
    pub fn new(g: Graph, cmp: Cmp, conv: Conv) -> World {
        World {
            g,
            ver: BTreeMap::new(),
            hist: BTreeMap::new(),
            files: BTreeMap::new(),
            evalno: 1,
            cmp,
            conv,
            tainted: false,
            built: BTreeMap::new(),
            dirty: BTreeSet::new(),
        }
    }
    /// content map (name -> content) of job j given the materialised content maps of its upstreams
    pub fn content(
        &self,
        j: &str,
        inputs: &BTreeMap<String, Value>,
        nonce: Option<u32>,
    ) -> Value {
        let v = self.ver.get(j).copied().unwrap_or(0);
        let empty = BTreeSet::new();
        let uses = self.g.uses.get(j).unwrap_or(&empty);
        let mut ins = Map::new();
        for m in uses.iter() {
            // find the upstream producing m
            let mut found = json!({"MISSING": true});
            for (_u, cm) in inputs.iter() {
                if let Some(c) = cm.get(m) {
                    found = c.clone();
                }
            }
            ins.insert(m.clone(), found);
        }
        let mut out = Map::new();
        for n in names_of(j) {
            let mut c = Map::new();
            c.insert("j".into(), json!(n));
            c.insert("v".into(), json!(v));
            c.insert("i".into(), Value::Object(ins.clone()));
            if let Some(x) = nonce {
                c.insert("n".into(), json!(x));
            }
            out.insert(n, Value::Object(c));
        }
        Value::Object(out)
    }
    /// what the driver reports to the engine for a content map
    pub fn report(&self, content: &Value) -> String {
        match self.cmp {
            Cmp::Exact => json!({ "c": content }).to_string(),
            Cmp::IgnoreStamp => json!({"c": content, "s": self.evalno}).to_string(),
        }
    }
}

/// parse a history value written by this harness; anything else is passed through as raw text
pub fn parse_value(s: &str) -> Value {
    match serde_json::from_str::<Value>(s) {
        Ok(v) if v.is_object() && v.get("c").is_some() => v,
        _ => json!({ "raw": s }),
    }
}

/// the history value with its stamp removed (C15 pairing of stamped and stamp-free runs)
pub fn strip_stamp(s: &str) -> String {
    match serde_json::from_str::<Value>(s) {
        Ok(Value::Object(mut m)) if m.contains_key("c") => {
            m.remove("s");
            Value::Object(m).to_string()
        }
        _ => s.to_string(),
    }
}

pub fn parse_content(s: &str) -> Value {
    match serde_json::from_str::<Value>(s) {
        Ok(v) if v.is_object() => v,
        _ => json!({ "raw": s }),
    }
}

/// the configured comparison, on the strings the engine holds
pub fn altered(cmp: Cmp, conv: Conv, needs_of_down: Option<&BTreeSet<String>>, last: &str, cur: &str) -> bool {
    if last == cur {
        return false;
    }
    let a = parse_value(last);
    let b = parse_value(cur);
    if a.get("raw").is_some() || b.get("raw").is_some() {
        return true;
    }
    let (ac, bc) = (a.get("c").unwrap(), b.get("c").unwrap());
    match (conv, needs_of_down) {
        (Conv::Names, Some(needs)) => {
            // only the consumed names count
            let keys: BTreeSet<String> = ac
                .as_object()
                .map(|m| m.keys().cloned().collect())
                .unwrap_or_default();
            let keys_b: BTreeSet<String> = bc
                .as_object()
                .map(|m| m.keys().cloned().collect())
                .unwrap_or_default();
            for n in keys.union(&keys_b) {
                if needs.contains(n) && ac.get(n) != bc.get(n) {
                    return true;
                }
            }
            if cmp == Cmp::Exact {
                // stamps do not exist under Exact
            }
            false
        }
        _ => match cmp {
            Cmp::Exact => true, // strings differ and both canonical
            Cmp::IgnoreStamp => ac != bc,
        },
    }
}

/// an edit of the world between two evaluations
#[derive(Clone, Debug, PartialEq, Eq, Hash, PartialOrd, Ord)]
pub enum Edit {
    None,
    Delete(String),
    Bump(String),
    RmNode(String),
    AddNode(String),
    RmEdge(String, String),
    AddEdge(String, String),
    /// multi-output job changes its set of outputs (thereby its id): old id, new id
    Rename(String, String),
}

impl Edit {
    pub fn describe(&self) -> String {
        match self {
            Edit::None => "none".into(),
            Edit::Delete(j) => format!("delete {}", j),
            Edit::Bump(j) => format!("bump {}", j),
            Edit::RmNode(j) => format!("rmnode {}", j),
            Edit::AddNode(j) => format!("addnode {}", j),
            Edit::RmEdge(u, d) => format!("rmedge {} {}", u, d),
            Edit::AddEdge(u, d) => format!("addedge {} {}", u, d),
            Edit::Rename(a, b) => format!("rename {} {}", a, b),
        }
    }
}

/// The universe a chain of edits lives in: the full graph jobs/edges can be taken from/put back to
#[derive(Clone, Debug)]
pub struct Universe {
    pub g: Graph,
}

pub fn apply_edit(u: &Universe, w: &World, e: &Edit) -> World {
    let mut w2 = w.clone();
    match e {
        Edit::None => {}
        Edit::Delete(j) => {
            w2.files.remove(j);
        }
        Edit::Bump(j) => {
            *w2.ver.entry(j.clone()).or_insert(0) += 1;
        }
        Edit::RmNode(j) => {
            w2.g.kind.remove(j);
            w2.g.edges.retain(|(a, b)| a != j && b != j);
        }
        Edit::AddNode(j) => {
            w2.g.kind.insert(j.clone(), u.g.kind[j]);
            for (a, b) in u.g.edges.iter() {
                if (a == j || b == j) && w2.g.kind.contains_key(a) && w2.g.kind.contains_key(b) {
                    w2.g.edges.insert((a.clone(), b.clone()));
                }
            }
            if let Some(x) = u.g.uses.get(j) {
                w2.g.uses.insert(j.clone(), x.clone());
            }
            // consumers of the re-added job use its outputs again, as the universe says
            for (a, b) in u.g.edges.iter() {
                if a == j && w2.g.kind.contains_key(b) {
                    if let Some(x) = u.g.uses.get(b) {
                        let names = names_of(j);
                        let add: Vec<String> = x.iter().filter(|n| names.contains(n)).cloned().collect();
                        w2.g.uses.entry(b.clone()).or_default().extend(add);
                    }
                }
            }
        }
        Edit::RmEdge(a, b) => {
            w2.g.edges.remove(&(a.clone(), b.clone()));
        }
        Edit::AddEdge(a, b) => {
            w2.g.edges.insert((a.clone(), b.clone()));
        }
        Edit::Rename(old, new) => {
            let k = w2.g.kind.remove(old).unwrap();
            w2.g.kind.insert(new.clone(), k);
            let es: Vec<(String, String)> = w2.g.edges.iter().cloned().collect();
            w2.g.edges.clear();
            for (a, b) in es {
                let a2 = if &a == old { new.clone() } else { a };
                let b2 = if &b == old { new.clone() } else { b };
                w2.g.edges.insert((a2, b2));
            }
            if let Some(x) = w2.g.uses.remove(old) {
                w2.g.uses.insert(new.clone(), x);
            }
            if let Some(x) = w2.g.needs.remove(old) {
                w2.g.needs.insert(new.clone(), x);
            }
            if let Some(v) = w2.ver.remove(old) {
                w2.ver.insert(new.clone(), v);
            }
            // the files of the old job: names that survive keep their content on disk, but
            // "the file of job <id>" is tracked per job id: a renamed Output job's file set is
            // incomplete/stale by definition -> absent under the new id.
            w2.files.remove(old);
        }
    }
    if w2.conv == Conv::Ids {
        w2.g.normalise_ids();
    } else {
        w2.g.normalise_names();
    }
    w2
}

/// all single edits applicable to w within universe u, by class letters:
/// d=delete b=bump n=node add/remove e=edge add/remove
pub fn single_edits(u: &Universe, w: &World, classes: &str) -> Vec<Edit> {
    let mut out = vec![];
    for j in w.g.kind.keys() {
        if classes.contains('d') && w.files.contains_key(j) {
            out.push(Edit::Delete(j.clone()));
        }
        if classes.contains('b') && w.g.kind[j] == Kind::A {
            out.push(Edit::Bump(j.clone()));
        }
    }
    if classes.contains('n') {
        for j in u.g.kind.keys() {
            if w.g.kind.contains_key(j) {
                if w.g.kind.len() > 1 {
                    out.push(Edit::RmNode(j.clone()));
                }
            } else {
                out.push(Edit::AddNode(j.clone()));
            }
        }
    }
    if classes.contains('e') {
        for (a, b) in u.g.edges.iter() {
            if w.g.edges.contains(&(a.clone(), b.clone())) {
                out.push(Edit::RmEdge(a.clone(), b.clone()));
            } else if w.g.kind.contains_key(a) && w.g.kind.contains_key(b) {
                out.push(Edit::AddEdge(a.clone(), b.clone()));
            }
        }
    }
    if classes.contains('r') {
        // a multi-output job gains or loses an output, thereby changing its id
        for j in w.g.kind.keys() {
            let parts = names_of(j);
            // the extra output is named after the job's first output: output names are unique
            let extra = format!("{}z", parts[0]);
            if !parts.iter().any(|p| *p == extra) {
                let mut p2 = parts.clone();
                p2.push(extra);
                out.push(Edit::Rename(j.clone(), p2.join(":::")));
            }
            if parts.len() > 1 {
                let dropped = parts.last().unwrap().clone();
                let needed = w.g.needs.values().any(|s| s.contains(&dropped)) && w.conv == Conv::Names;
                if !needed {
                    let p2: Vec<String> = parts[..parts.len() - 1].to_vec();
                    out.push(Edit::Rename(j.clone(), p2.join(":::")));
                }
            }
        }
    }
    out
}
