//! Chains of evaluations over one universe: edits in between, fault sets, abort points,
//! resumes, twins (failure-free / exact-comparison / declaration-order).
use crate::drive::*;
use crate::explore::*;
use crate::world::*;
use serde_json::{json, Map, Value};
use std::collections::{BTreeSet, HashMap, HashSet};

#[derive(Clone, Debug)]
pub struct Level {
    /// edit classes applied before this level's evaluation (see world::single_edits); "" = only "none"
    pub edits: String,
    /// max number of jobs in a failure set (0 = failure-free only)
    pub maxfail: usize,
    pub abort: bool,
    pub misuse: bool,
    /// number of extra declaration orders tried for the failure-free evaluation
    pub decls: usize,
    /// flaky ephemerals: every single Ephemeral job gets a turn at being flaky
    pub flaky: bool,
    /// this level's edits are also applied right after an interrupted (failed / aborted)
    /// evaluation of the previous level, instead of only after its failure-free resume
    pub after_fail: bool,
    /// also every pair of this level's single edits at once (two things changed between evaluations)
    pub pairs: bool,
    /// reconsider_all_jobs() among the driver's choices
    pub reconsider: bool,
}

#[derive(Clone, Debug)]
pub struct ChainSpec {
    pub levels: Vec<Level>,
    pub steps: bool,
    pub max_states: usize,
    pub fam: String,
    /// also follow interrupted evaluations by a second interruption before the resume
    pub double_interrupt: bool,
    /// 0 = every schedule; k = k seeded random schedules per evaluation
    pub paths: usize,
    pub seed: u64,
    /// stop continuing the chains of one universe once it has written this many trace lines (a
    /// changed engine can make a universe explode; a shard must stay small enough for one TLC run)
    pub max_universe_lines: usize,
}

pub struct ChainRun<'a> {
    pub spec: &'a ChainSpec,
    pub u: &'a Universe,
    pub wr: &'a mut Writer,
    pub stats: &'a mut Stats,
    pub seen: HashSet<String>,
    /// (path key under exact comparison, end signature) -> end line ; for the C15 differential
    pub exact_ends: HashMap<String, Vec<usize>>,
    pub record_exact: bool,
    pub lookup_exact: bool,
    pub start_lines: usize,
}

fn subsets(items: &[String], maxk: usize) -> Vec<BTreeSet<String>> {
    let mut out = vec![];
    for code in 0..(1usize << items.len()) {
        let k = code.count_ones() as usize;
        if k >= 1 && k <= maxk {
            out.push(
                items
                    .iter()
                    .enumerate()
                    .filter(|(i, _)| code & (1 << i) != 0)
                    .map(|(_, j)| j.clone())
                    .collect(),
            );
        }
    }
    out
}

pub fn world_after(w: &World, e: &EndInfo) -> World {
    let mut w2 = w.clone();
    w2.hist = e.hist1.clone();
    w2.files = e.files1.clone();
    w2.evalno = w.evalno + 1;
    // ground truth: what every successfully executed job was built from; who was touched by a
    // failed or interrupted attempt
    for (j, m) in e.consumed.iter() {
        w2.built.insert(j.clone(), m.clone());
        w2.dirty.remove(j);
    }
    for j in e.touched.iter() {
        w2.dirty.insert(j.clone());
    }
    w2
}

fn tainted_after(w: &World, cfg_flaky: bool) -> bool {
    w.tainted || cfg_flaky
}

impl<'a> ChainRun<'a> {
    fn opts(&self, lv: &Level, abort: bool, misuse: bool) -> Opts {
        Opts {
            reconsider: lv.reconsider,
            abort,
            misuse,
            steps: self.spec.steps,
            max_states: self.spec.max_states,
            single: false,
            paths: self.spec.paths,
            seed: self.spec.seed,
        }
    }

    fn explore(
        &mut self,
        w: &World,
        cfg: &EvalCfg,
        opts: &Opts,
        extra: Map<String, Value>,
        pathkey: &str,
    ) -> Option<CtxResult> {
        let key = format!(
            "{:?}|{:?}|{}|{}|{}|{}|{}",
            w,
            cfg,
            opts.abort,
            opts.misuse,
            extra.get("prevsig").map(|x| x.to_string()).unwrap_or_default(),
            extra.get("twin").map(|x| x.to_string()).unwrap_or_default(),
            extra.get("sameas").map(|x| x.to_string()).unwrap_or_default(),
        );
        if !self.seen.insert(key) {
            return None;
        }
        if self.wr.total_lines - self.start_lines > self.spec.max_universe_lines {
            self.stats.truncated += 1;
            return None;
        }
        let mut extra = extra;
        extra.insert("fam".into(), json!(self.spec.fam));
        extra.insert("pathkey".into(), json!(pathkey));
        // C15 differential pairing: the same world modulo stamps, same faults, same driver options
        let wkey = {
            let mut ws = w.clone();
            ws.evalno = 0;
            ws.cmp = Cmp::Exact;
            for v in ws.hist.values_mut() {
                *v = strip_stamp(v);
            }
            for m in ws.built.values_mut() {
                for v in m.values_mut() {
                    *v = strip_stamp(v);
                }
            }
            format!("{:?}|{:?}|{}|{}", ws, cfg, opts.abort, opts.misuse)
        };
        let links = Links {
            pathkey: wkey.clone(),
            exact: if self.lookup_exact { Some(&self.exact_ends) } else { None },
            faultfree: cfg.fail.is_empty() && cfg.flaky.is_empty(),
        };
        let res = explore_ctx(self.wr, w, cfg, opts, &extra, &links, self.stats);
        for e in res.ends.iter() {
            let k = format!("{}#{}", wkey, e.sig);
            if self.record_exact {
                self.exact_ends.entry(k).or_default().push(e.line);
                if cfg.fail.is_empty() && cfg.flaky.is_empty() && !e.aborted {
                    self.exact_ends.entry(format!("{}#*", wkey)).or_default().push(e.line);
                }
            }
        }
        Some(res)
    }

    /// one level of the chain, starting from world w (already containing the previous history)
    pub fn level(&mut self, w: &World, depth: usize, prev: Option<(usize, bool)>, pathkey: &str) {
        if depth >= self.spec.levels.len() {
            return;
        }
        let lv = self.spec.levels[depth].clone();
        let mut edits: Vec<Vec<Edit>> = vec![vec![Edit::None]];
        if depth > 0 || !w.hist.is_empty() {
            let singles = single_edits(self.u, w, &lv.edits);
            for e in singles.iter() {
                edits.push(vec![e.clone()]);
            }
            if lv.pairs {
                for (i, a) in singles.iter().enumerate() {
                    let wa = apply_edit(self.u, w, a);
                    let second = single_edits(self.u, &wa, &lv.edits);
                    for b in singles.iter().skip(i + 1) {
                        if second.contains(b) {
                            edits.push(vec![a.clone(), b.clone()]);
                        }
                    }
                }
            }
        }
        for es in edits {
            let mut w2 = w.clone();
            for e in es.iter() {
                w2 = apply_edit(self.u, &w2, e);
            }
            let desc = es.iter().map(|e| e.describe()).collect::<Vec<_>>().join(" + ");
            let pk = format!("{}/{}", pathkey, desc);
            let mut extra = Map::new();
            extra.insert("edit".into(), json!(desc));
            if let Some((pl, _)) = prev {
                extra.insert("prev".into(), json!(pl));
            }
            // the failure-free evaluation (all schedules; with abort points if asked)
            let cfg0 = EvalCfg::default();
            let opts0 = self.opts(&lv, lv.abort, lv.misuse);
            let base = self.explore(&w2, &cfg0, &opts0, extra.clone(), &pk);
            let base = match base {
                Some(b) => b,
                None => continue,
            };
            let twin_line = base.ends.iter().find(|x| x.clean).map(|x| x.line).unwrap_or(0);
            // declaration-order twins
            for k in 1..=lv.decls {
                let mut cfg = EvalCfg::default();
                cfg.decl = k * 37 + 1;
                let mut ex = extra.clone();
                ex.insert("sameas".into(), json!(twin_line));
                let o = self.opts(&lv, false, false);
                self.explore(&w2, &cfg, &o, ex, &format!("{}~d{}", pk, k));
            }
            let mut all: Vec<(EndInfo, bool)> = base.ends.iter().map(|x| (x.clone(), false)).collect();
            // failing evaluations
            let jobs: Vec<String> = w2.g.kind.keys().cloned().collect();
            for fs in subsets(&jobs, lv.maxfail) {
                let mut cfg = EvalCfg::default();
                cfg.fail = fs.clone();
                let mut ex = extra.clone();
                ex.insert("twin".into(), json!(twin_line));
                let o = self.opts(&lv, false, false);
                if let Some(r) = self.explore(&w2, &cfg, &o, ex, &format!("{}~f{:?}", pk, fs)) {
                    all.extend(r.ends.into_iter().map(|x| (x, false)));
                }
            }
            if lv.flaky {
                for j in jobs.iter().filter(|j| w2.g.kind[*j] == Kind::E) {
                    let mut cfg = EvalCfg::default();
                    cfg.flaky.insert(j.clone(), Flaky::Nonce);
                    let mut ex = extra.clone();
                    ex.insert("twin".into(), json!(twin_line));
                    let o = self.opts(&lv, false, false);
                    if let Some(r) = self.explore(&w2, &cfg, &o, ex, &format!("{}~k{}", pk, j)) {
                        all.extend(r.ends.into_iter().map(|x| (x, true)));
                    }
                }
            }
            // continue from every distinct end world
            let mut seen_worlds: HashSet<String> = HashSet::new();
            for (end, flaky) in all {
                if !seen_worlds.insert(format!(
                    "{:?}|{:?}|{:?}|{:?}|{:?}",
                    end.hist1, end.files1, end.succ_outputs, end.consumed, end.touched
                )) {
                    continue;
                }
                let mut w3 = world_after(&w2, &end);
                w3.tainted = tainted_after(&w2, flaky);
                if end.clean {
                    self.level(&w3, depth + 1, Some((end.line, true)), &format!("{}>{}", pk, end.sig));
                } else {
                    // failure-free resume with nothing else changed
                    self.resume(&w3, &end, twin_line, depth, &pk, 0, &BTreeSet::new());
                    // ... or the project is edited before it is evaluated again
                    if self.spec.levels.get(depth + 1).map(|l| l.after_fail).unwrap_or(false) {
                        self.level(&w3, depth + 1, Some((end.line, false)), &format!("{}>{}!", pk, end.sig));
                    }
                }
            }
        }
    }

    #[allow(clippy::too_many_arguments)]
    fn resume(
        &mut self,
        w3: &World,
        end: &EndInfo,
        twin_line: usize,
        depth: usize,
        pk: &str,
        nest: usize,
        done_before: &BTreeSet<String>,
    ) {
        let lv = self.spec.levels[depth].clone();
        let mut ex = Map::new();
        let mut prevsucc: BTreeSet<String> = done_before.clone();
        prevsucc.extend(end.succ_outputs.iter().cloned());
        ex.insert("prevsucc".into(), json!(prevsucc.iter().collect::<Vec<_>>()));
        ex.insert("edit".into(), json!("resume"));
        ex.insert("prev".into(), json!(end.line));
        ex.insert("twin".into(), json!(twin_line));
        ex.insert("prevsig".into(), json!(format!("{:?}", prevsucc)));
        let o = self.opts(&lv, false, false);
        let pk2 = format!("{}>{}/resume", pk, end.sig);
        let r = self.explore(w3, &EvalCfg::default(), &o, ex.clone(), &pk2);
        if self.spec.double_interrupt && nest == 0 {
            // a second interruption before the clean resume: every single failure
            let jobs: Vec<String> = w3.g.kind.keys().cloned().collect();
            for fs in subsets(&jobs, 1) {
                let mut cfg = EvalCfg::default();
                cfg.fail = fs.clone();
                let mut ex2 = ex.clone();
                ex2.insert("edit".into(), json!("resume-interrupted"));
                if let Some(r2) = self.explore(w3, &cfg, &o, ex2, &format!("{}~f{:?}", pk2, fs)) {
                    let mut seen_w = HashSet::new();
                    for e2 in r2.ends {
                        if e2.clean
                            || !seen_w.insert(format!("{:?}|{:?}|{:?}|{:?}", e2.hist1, e2.files1, e2.consumed, e2.touched))
                        {
                            continue;
                        }
                        let w4 = world_after(w3, &e2);
                        self.resume(&w4, &e2, twin_line, depth, &pk2, 1, &prevsucc);
                    }
                }
            }
        }
        if let Some(r) = r {
            // after a clean resume the chain goes on
            let mut seen_w = HashSet::new();
            for e in r.ends {
                if e.clean && seen_w.insert(format!("{:?}|{:?}|{:?}|{:?}", e.hist1, e.files1, e.consumed, e.touched)) {
                    let w4 = world_after(w3, &e);
                    self.level(&w4, depth + 1, Some((e.line, true)), &format!("{}>{}", pk2, e.sig));
                }
            }
        }
    }
}

/// run one universe: under exact comparison, and (if asked) again with stamps under IgnoreStamp
pub fn run_universe(
    wr: &mut Writer,
    stats: &mut Stats,
    spec: &ChainSpec,
    g: &Graph,
    conv: Conv,
    cmps: &[Cmp],
    uid: &str,
) {
    let u = Universe { g: g.clone() };
    let mut exact_ends: HashMap<String, Vec<usize>> = HashMap::new();
    let both = cmps.len() == 2;
    for cmp in cmps {
        let mut g0 = g.clone();
        if conv == Conv::Ids {
            g0.normalise_ids();
        } else {
            g0.normalise_names();
        }
        let w = World::new(g0, *cmp, conv);
        let mut cr = ChainRun {
            spec,
            u: &u,
            wr,
            stats,
            seen: HashSet::new(),
            exact_ends: std::mem::take(&mut exact_ends),
            record_exact: both && *cmp == Cmp::Exact,
            lookup_exact: both && *cmp == Cmp::IgnoreStamp,
            start_lines: 0,
        };
        cr.start_lines = cr.wr.total_lines;
        cr.level(&w, 0, None, uid);
        exact_ends = std::mem::take(&mut cr.exact_ends);
    }
    wr.scenario_boundary();
}
