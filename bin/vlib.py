"""Shared machinery of /verif/bin/check: build the harness against /repo's working tree, record
traces from the real engine, validate them with TLC (spec/PPGTrace.tla), classify what TLC reports.
"""
import hashlib
import json
import os
import shutil
import subprocess
import sys
import time
from concurrent.futures import ThreadPoolExecutor

VERIF = "/verif"
# development overrides (bin/seedsweep runs checks against a scratch copy of the repository);
# the registered commands never set them
SCRATCH = os.environ.get("VERIF_SCRATCH", os.path.join(VERIF, ".scratch"))
HARNESS = os.environ.get("VERIF_HARNESS", os.path.join(VERIF, "harness"))
EVIDENCE = os.environ.get("VERIF_EVIDENCE", os.path.join(VERIF, "evidence"))
REPLAYS = os.environ.get("VERIF_REPLAYS", os.path.join(VERIF, "replays"))
EXPLORE = os.path.join(HARNESS, "target/release/explore")
SPEC = os.environ.get("VERIF_SPEC", os.path.join(VERIF, "spec"))
TLA_CP = "/opt/veriftools/tla/tla2tools.jar:/opt/veriftools/tla/CommunityModules-deps.jar"
NCPU = int(os.environ.get("VERIF_JOBS", "16"))


class ToolError(Exception):
    pass


def log(*a):
    print(*a, file=sys.stderr, flush=True)


def build_harness():
    """cargo build of the harness; its path dependency on /repo makes this rebuild the engine
    from /repo's current working tree, hooks on (harness/.cargo/config.toml)."""
    t0 = time.time()
    lock = os.path.join(HARNESS, "Cargo.lock")
    if not os.path.exists(lock):
        shutil.copy("/repo/Cargo.lock", lock)
    p = subprocess.run(
        ["cargo", "build", "--release", "--offline"],
        cwd=HARNESS,
        stdout=subprocess.PIPE,
        stderr=subprocess.STDOUT,
        text=True,
    )
    if p.returncode != 0:
        log(p.stdout[-4000:])
        raise ToolError("harness build failed")
    h = hashlib.sha256()
    for b in ("explore", "big"):
        with open(os.path.join(HARNESS, "target/release", b), "rb") as f:
            h.update(f.read())
    return h.hexdigest()[:16], time.time() - t0


def spec_hash():
    h = hashlib.sha256()
    for f in sorted(os.listdir(SPEC)):
        if f.endswith(".tla"):
            with open(os.path.join(SPEC, f), "rb") as fh:
                h.update(fh.read())
    return h.hexdigest()[:16]


def record_family(binhash, name, args, seed, binary="explore"):
    """run one scenario family of the explorer; traces are cached per harness binary (the binary
    contains the engine under test, so a cache hit means byte-identical code and arguments)."""
    extra = ""
    if args and args[0] == "shapes":
        # the graphs of this family come from a file: its content belongs to the cache key
        path = os.path.join(VERIF, "harness", "shapes.txt")
        for a in args:
            if a.startswith("file="):
                path = a[5:]
        with open(path, "rb") as f:
            extra = hashlib.sha256(f.read()).hexdigest()[:12]
    key = hashlib.sha256(("%s|%s|%s|%s|%s|%s" % (binhash, binary, name, " ".join(args), seed, extra)).encode()).hexdigest()[:16]
    d = os.path.join(SCRATCH, "traces", key)
    meta = os.path.join(d, "meta.json")
    if os.path.exists(meta):
        with open(meta) as f:
            m = json.load(f)
        if all(os.path.exists(x) for x in m["files"]):
            m["cached"] = True
            return m
    if os.path.exists(d):
        shutil.rmtree(d)
    os.makedirs(d)
    t0 = time.time()
    # Scenario selection is deterministic: the slices of the sampled families and the seeded
    # schedules are pinned (seed 1) - every slice in use has been validated against ALL properties
    # on the unchanged tree (bin/tiercheck), which cannot be said of the slices another seed would
    # select. VERIF_SEED is recorded in the evidence and only varies the cache key.
    cmd = [os.path.join(HARNESS, "target/release", binary)] + args + ["out=" + d, "tag=" + name, "seed=1", "threads=%d" % NCPU]
    p = subprocess.run(cmd, stdout=subprocess.PIPE, stderr=subprocess.PIPE, text=True, cwd=VERIF)
    if p.returncode != 0:
        log(p.stderr[-3000:])
        raise ToolError("explorer failed: " + " ".join(cmd))
    m = json.loads(p.stdout.strip().splitlines()[-1])
    m["cmd"] = " ".join(cmd)
    m["wall_s"] = time.time() - t0
    m["name"] = name
    m["key"] = key
    m["binhash"] = binhash
    with open(meta, "w") as f:
        json.dump(m, f)
    m["cached"] = False
    return m


def gc_traces(binhash, limit_bytes=6 << 30):
    """disk is limited: when the recorded traces exceed the limit, drop the oldest directories
    recorded from other builds of the engine"""
    base = os.path.join(SCRATCH, "traces")
    if not os.path.isdir(base):
        return
    ents = []
    total = 0
    for d in os.listdir(base):
        p = os.path.join(base, d)
        size = 0
        for f in os.listdir(p):
            try:
                size += os.path.getsize(os.path.join(p, f))
            except OSError:
                pass
        total += size
        bh = None
        try:
            with open(os.path.join(p, "meta.json")) as f:
                bh = json.load(f).get("binhash")
        except Exception:
            pass
        ents.append((os.path.getmtime(p), p, size, bh))
    ents.sort()
    for mt, p, size, bh in ents:
        if total <= limit_bytes:
            break
        if bh != binhash:
            shutil.rmtree(p, ignore_errors=True)
            total -= size


def write_cfg(path, props, maxviol=300):
    sel = ", ".join('"%s"' % p for p in sorted(props))
    with open(path, "w") as f:
        f.write(
            "SPECIFICATION Spec\n"
            "CONSTANT SelProps = {%s}\n"
            "CONSTANT MaxViol = %d\n"
            "POSTCONDITION Consumed\n"
            "CHECK_DEADLOCK FALSE\n" % (sel, maxviol)
        )


def tlc_trace(shard, cfg, outdir):
    """validate one shard with TLC; returns the parsed result written by the spec"""
    base = os.path.basename(shard)
    out = os.path.join(outdir, base + ".out.json")
    md = os.path.join(outdir, base + ".md")
    logf = os.path.join(outdir, base + ".log")
    env = dict(os.environ)
    env["TRACE"] = shard
    env["OUT"] = out
    env["JAVA_TOOL_OPTIONS"] = "-Xss1g -Dtlc2.tool.queue.IStateQueue=StateDeque"
    cmd = [
        "java", "-XX:+UseSerialGC", "-Xmx3g", "-cp", TLA_CP, "tlc2.TLC",
        "-workers", "1", "-metadir", md, "-noGenerateSpecTE", "-config", cfg, "PPGTrace.tla",
    ]
    t0 = time.time()
    try:
        with open(logf, "w") as lf:
            p = subprocess.run(cmd, cwd=SPEC, env=env, stdout=lf, stderr=subprocess.STDOUT,
                               timeout=int(os.environ.get("TLC_TIMEOUT", "3600")))
    except subprocess.TimeoutExpired:
        raise ToolError("TLC timeout on " + shard)
    finally:
        shutil.rmtree(md, ignore_errors=True)
    txt = open(logf).read()
    if p.returncode != 0 or "Model checking completed. No error has been found." not in txt:
        raise ToolError("TLC rejected %s (rc=%d): %s" % (shard, p.returncode, txt[-1500:]))
    with open(out) as f:
        r = json.load(f)
    r["shard"] = shard
    r["wall_s"] = time.time() - t0
    os.remove(out)
    os.remove(logf)
    return r


def validate(shards, props, workdir):
    os.makedirs(workdir, exist_ok=True)
    cfg = os.path.join(workdir, "trace.cfg")
    write_cfg(cfg, props)
    with ThreadPoolExecutor(max_workers=NCPU) as ex:
        return list(ex.map(lambda s: tlc_trace(s, cfg, workdir), shards))


def validate_family(m, props, workdir):
    """TLC validation of one recorded family for a set of property ids. The result is cached
    next to the traces, keyed by the specification text and the property set: the traces
    themselves are keyed by the harness binary (= the engine under test), so a hit means the
    same code, the same scenarios and the same specification."""
    key = hashlib.sha256(("%s|%s" % (spec_hash(), ",".join(sorted(props)))).encode()).hexdigest()[:16]
    d = os.path.dirname(m["files"][0]) if m["files"] else None
    cache = os.path.join(d, "val-%s.json" % key) if d else None
    if cache and os.path.exists(cache) and not os.environ.get("VERIF_NOCACHE"):
        with open(cache) as f:
            r = json.load(f)
        for x in r:
            x["cached"] = True
        return r
    r = validate(m["files"], props, workdir)
    if cache:
        with open(cache + ".tmp", "w") as f:
            json.dump(r, f)
        os.replace(cache + ".tmp", cache)
    return r


# ---------------------------------------------------------------- reading shards back
class Shard:
    def __init__(self, path):
        self.path = path
        self.lines = [None]
        with open(path) as f:
            for ln in f:
                self.lines.append(ln)
        self._parsed = {}

    def get(self, i):
        if i not in self._parsed:
            self._parsed[i] = json.loads(self.lines[i])
        return self._parsed[i]

    def ctx_of(self, i):
        r = self.get(i)
        if r["t"] == "ctx":
            return i
        return r["ctx"]

    def path_to_state(self, st_line):
        """calls leading from event_startup to the state at st_line (first discovery)"""
        calls = []
        cur = st_line
        ctx = self.ctx_of(st_line)
        guard = 0
        while True:
            guard += 1
            if guard > 10000:
                break
            # the discovering transition is the first tr line after ctx with to == cur and from < cur
            found = None
            j = cur + 1
            r = self.get(j) if j < len(self.lines) else None
            if r and r["t"] == "tr" and r["to"] == cur and not r.get("mis"):
                found = r
            if found is None:
                break
            if found["from"] == 0:
                break
            calls.append(found["call"])
            cur = found["from"]
        calls.reverse()
        return ctx, calls

    def describe(self, line):
        r = self.get(line)
        t = r["t"]
        if t == "st":
            ctx, calls = self.path_to_state(line)
            return {"kind": "state", "ctx": self.get(ctx), "calls": calls, "state": r}
        if t == "tr":
            ctx, calls = (r["ctx"], []) if r["from"] == 0 else self.path_to_state(r["from"])
            return {"kind": "transition", "ctx": self.get(r["ctx"]), "calls": calls, "call": r["call"],
                    "res": r["res"], "msg": r.get("msg", ""), "post": self.get(r["to"])}
        if t == "end":
            ctx, calls = self.path_to_state(r["st"])
            c = self.get(r["ctx"])
            d = {"kind": "end", "ctx": c, "calls": calls, "end": r, "state": self.get(r["st"])}
            chain = []
            pl = c.get("prev", 0)
            hops = 0
            while pl and hops < 6:
                pe = self.get(pl)
                pc = self.get(pe["ctx"])
                _, pcalls = self.path_to_state(pe["st"])
                chain.append({"ctx": pc, "calls": pcalls})
                pl = pc.get("prev", 0)
                hops += 1
            chain.reverse()
            d["chain"] = chain
            if c.get("twin", 0):
                te = self.get(c["twin"])
                d["twin"] = {"end": te, "state": self.get(te["st"])}
            return d
        if t == "big":
            ctx = {"nodes": [], "kind": {}, "edges": [], "fail": [], "cmp": "exact", "evalno": 0,
                   "edit": "%s %s/%s n=%s jobs=%s" % (r.get("shape"), r.get("family"), r.get("pattern"), r.get("n"), r.get("jobs"))}
            return {"kind": "big", "ctx": ctx, "calls": [], "big": r}
        return {"kind": t, "rec": r}


def short_ctx(c):
    g = " ".join("%s:%s" % (j, c["kind"][j]) for j in c["nodes"])
    e = ",".join("%s>%s" % (a, b) for a, b in c["edges"])
    return "[%s | %s | edit=%s fail=%s cmp=%s eval=%d decl=%d]" % (
        g, e, c.get("edit"), ",".join(c["fail"]), c["cmp"], c["evalno"], c.get("decl", 0))


def short_calls(calls):
    return " ".join("%s(%s)" % (c["name"], c["job"]) if c["job"] else c["name"] for c in calls)
