"""Scenario families per tier and property.

explore levels (harness/src/bin/explore.rs), one group per evaluation of a chain, '/' separated:
d delete an output, b bump an Always job, n remove/add a job, e remove/add a dependency,
r a multi-output job gains/loses an output (edits before the evaluation); f<k> every failure set
up to k jobs; a abort at every point (both variants); m every illegal call in every state;
p<k> k extra declaration orders; k flaky Ephemerals; - nothing.

A family is (name, binary, args, properties it serves, exhaustive over its stated space,
properties whose clauses are evaluated on it when it serves property P: None = {P}).
"""

ALLP = {"C%02d" % i for i in range(1, 21)}
TRACEP = ALLP - {"C19"}

# clauses evaluated on the complete traces of the small instances of the size families: a
# violation of any of them there is size-dependent behaviour
BIGPROPS = {"C01", "C02", "C03", "C04", "C05", "C06", "C11", "C12", "C13", "C17", "C19"}

QUICK = [
    ("n3", "explore", ["exh", "n=3", "levels=f1a/dbnef1a"], TRACEP - {"C15", "C16", "C20"}, True, None),
    ("n3m", "explore", ["exh", "n=3", "levels=f1am/dbf1am"], {"C20"}, True, None),
    # reconsider_all_jobs() (public debugging aid) as one more driver choice in every unfinished state
    ("n3c", "explore", ["exh", "n=3", "levels=f1c/dbf1c"], {"C05", "C06", "C17"}, True, None),
    ("n3uses", "explore", ["exh", "n=3", "uses=none", "levels=f1/dbne"], {"C01", "C03", "C04", "C11", "C12"}, True, None),
    ("n3stamp", "explore", ["exh", "n=3", "cmp=both", "levels=f1a/dbf1a/-"], {"C15", "C04", "C09", "C11", "C12"}, True, None),
    ("n3stamp4", "explore", ["exh", "n=3", "cmp=both", "levels=-/dn/dn/dn", "steps=0"], {"C15", "C04", "C12"}, True, None),
    ("n3flaky", "explore", ["exh", "n=3", "cmp=both", "levels=-/bdk/-"], {"C16", "C06", "C08"}, True, None),
    ("n3decl", "explore", ["exh", "n=3", "levels=p5/dbnep5"], {"C14"}, True, None),
    # beyond the exhaustive bound: every 4-job graph with two Ephemerals one of which feeds a
    # non-Ephemeral job, and a slice (by seed) of the 5-job graphs with an Ephemeral chain; clean
    # build, then every single delete / bump with every single failure; two seeded schedules
    ("n4e2", "explore", ["exh", "n=4", "filter=eph2", "levels=-/dbf1/-", "paths=2", "steps=0"],
     TRACEP - {"C14", "C15", "C16", "C20"}, False, None),
    ("eph5", "explore", ["exh", "n=5", "filter=eph5", "stride=49", "levels=-/dbf1/-", "paths=2", "steps=0"],
     TRACEP - {"C14", "C15", "C16", "C20"}, False, None),
    ("n4stamp", "explore", ["exh", "n=4", "filter=eph2", "stride=3", "cmp=both", "levels=-/dbf1/-", "paths=1", "steps=0"],
     {"C15", "C16"}, False, None),
    # production's input-name convention: lists of consumed output names, comparison restricted to
    # them; each job with a consumer in turn is a two-output job, jobs gain / lose outputs (rename),
    # also right after an interrupted evaluation
    ("names3", "explore", ["exh", "n=3", "conv=names", "multi=1", "levels=-/dbrf1/dbrx", "steps=0"],
     {"C01", "C03", "C04", "C09", "C11", "C18"}, True, None),
    # regression shapes (harness/shapes.txt): graphs on which a known defect or a seeded change needed
    # something specific; every schedule, every single failure, every abort point, chains of three
    ("shapes", "explore", ["shapes", "levels=f1a/dbf1a/db", "steps=0", "maxstates=3000"],
     TRACEP - {"C15", "C16", "C20"}, False, None),
    ("shapesst", "explore", ["shapes", "cmp=both", "levels=f1/dbf1/-", "paths=4", "steps=0"], {"C15", "C16"}, False, None),
    ("shapesfl", "explore", ["shapes", "cmp=both", "levels=-/bdk/-", "paths=4", "steps=0"], {"C16"}, False, None),
    ("shapesdc", "explore", ["shapes", "levels=p8/dbp8", "paths=4", "steps=0"], {"C14"}, False, None),
    ("big", "big", ["sizes=12,24,48,120,1200", "full=12"], {"C19"}, False, BIGPROPS),
]

THOROUGH = [
    ("n3", "explore", ["exh", "n=3", "levels=f2a/dbnerf1a/db"], TRACEP - {"C15", "C16", "C20"}, True, None),
    ("n3m", "explore", ["exh", "n=3", "levels=f1am/dbnef1am"], {"C20"}, True, None),
    ("n3c", "explore", ["exh", "n=3", "levels=f1ac/dbnef1ac"], {"C05", "C06", "C17"}, True, None),
    ("n3uses", "explore", ["exh", "n=3", "uses=mix", "levels=f1/dbne/db"], {"C01", "C03", "C04", "C11", "C12"}, True, None),
    ("n3stamp", "explore", ["exh", "n=3", "cmp=both", "levels=f1a/dbnef1a/db"], {"C15", "C04", "C09", "C11", "C12"}, True, None),
    ("n3stamp4", "explore", ["exh", "n=3", "cmp=both", "levels=-/dbn/dbn/dbn", "steps=0"], {"C15", "C04", "C12"}, True, None),
    ("n3flaky", "explore", ["exh", "n=3", "cmp=both", "levels=-/bdkf1/k"], {"C16", "C06", "C08"}, True, None),
    ("n3decl", "explore", ["exh", "n=3", "levels=p9/dbnep9"], {"C14"}, True, None),
    # every 4-job graph: clean build, every delete / bump with every single failure, resume; 2 schedules
    ("n4", "explore", ["exh", "n=4", "levels=-/dbf1/-", "paths=2", "steps=0"], TRACEP - {"C15", "C16", "C20"}, False, None),
    # the Ephemeral-rich 4-job graphs: every schedule, aborts, node / edge edits, chains of three
    ("n4e2", "explore", ["exh", "n=4", "filter=eph2", "levels=f1a/dbf1a/-", "steps=0", "maxstates=3000"],
     TRACEP - {"C14", "C15", "C16", "C20"}, False, None),
    ("n4e2n", "explore", ["exh", "n=4", "filter=eph2", "levels=-/ne/dbne", "paths=2", "steps=0"],
     {"C01", "C03", "C04", "C11", "C12", "C18"}, False, None),
    ("n4stamp", "explore", ["exh", "n=4", "filter=eph2", "cmp=both", "levels=f1/dbf1/-", "paths=2", "steps=0"], {"C15", "C16"}, False, None),
    ("n4flaky", "explore", ["exh", "n=4", "filter=eph2", "cmp=both", "levels=-/bdk/-", "paths=2", "steps=0"], {"C16"}, False, None),
    ("eph5", "explore", ["exh", "n=5", "filter=eph5", "stride=11", "levels=-/dbf1/-", "paths=2", "steps=0"],
     TRACEP - {"C14", "C15", "C16", "C20"}, False, None),
    ("rnd6", "explore", ["random", "n=6", "count=100", "levels=f1/dbnef1/db", "paths=3", "steps=0"], TRACEP - {"C15", "C16", "C20"}, False, None),
    ("names3", "explore", ["exh", "n=3", "conv=names", "multi=1", "levels=f1/dbnerf1/dbrx", "steps=0"],
     {"C01", "C03", "C04", "C06", "C08", "C09", "C11", "C12", "C18"}, True, None),
    ("names4", "explore", ["exh", "n=4", "conv=names", "multi=1", "filter=eph2", "stride=9", "levels=-/dbrf1/rx", "paths=2", "steps=0"],
     {"C01", "C03", "C04", "C09", "C18"}, False, None),
    ("shapes", "explore", ["shapes", "levels=f1a/dbf1a/dbf1", "steps=0", "maxstates=3000"],
     TRACEP - {"C15", "C16", "C20"}, False, None),
    # two things changed at once between evaluations (pairs of edits), node / edge edits
    ("shapes2", "explore", ["shapes", "levels=f1/dbnetf1/db", "paths=4", "steps=0"],
     TRACEP - {"C14", "C15", "C16", "C20"}, False, None),
    ("shapesst", "explore", ["shapes", "cmp=both", "levels=f1a/dbf1a/db", "steps=0", "maxstates=3000"], {"C15", "C16"}, False, None),
    ("shapesfl", "explore", ["shapes", "cmp=both", "levels=-/bdkf1/k", "steps=0", "maxstates=3000"], {"C16"}, False, None),
    ("shapesdc", "explore", ["shapes", "levels=p9/dbp9", "steps=0", "maxstates=3000"], {"C14"}, False, None),
    ("big", "big", ["sizes=12,24,48,120,1200,12000", "full=24"], {"C19"}, False, BIGPROPS),
]


def table(tier):
    return THOROUGH if tier == "thorough" else QUICK


# families whose every recorded transition is also compared with the model PPGEngine (strict
# conformance, reported as DRIFT): all of them in the thorough tier, the exhaustive 3-job ones in
# the quick tier
QUICK_STRICT = {"n3", "n3c", "n3m", "n3uses", "n3stamp", "n3flaky", "n3decl", "names3"}


def for_property(prop, tier):
    return [{"name": n, "binary": b, "args": a, "exhaustive": ex, "eval": (ev or {prop}),
             "strict": b == "explore" and (tier == "thorough" or n in QUICK_STRICT)}
            for (n, b, a, ps, ex, ev) in table(tier) if prop in ps]
