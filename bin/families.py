"""Scenario families per tier and property.  Level letters (harness/src/bin/explore.rs):
d delete output, b bump an Always job, n remove/add job, e remove/add dependency (edits before the
evaluation); f<k> every failure set up to k jobs; a abort at every point (both variants);
m every illegal call in every state; p<k> k extra declaration orders; k flaky Ephemerals."""

ALLP = {"C%02d" % i for i in range(1, 21)}

# name, explorer args, properties served, exhaustive over its stated space
QUICK = [
    ("n3", ["exh", "n=3", "levels=f1am/dbnef1a"], ALLP - {"C15", "C16", "C19"}, True),
    ("n3uses", ["exh", "n=3", "uses=none", "levels=f1/dbne"], {"C01", "C03", "C04", "C11", "C12"}, True),
    ("n3stamp", ["exh", "n=3", "cmp=both", "levels=f1a/dbf1a/-"], {"C15", "C04", "C09", "C12"}, True),
    ("n3flaky", ["exh", "n=3", "cmp=both", "levels=-/bdk/-"], {"C16", "C06"}, True),
    ("n3decl", ["exh", "n=3", "levels=p5/dbnep5"], {"C14"}, True),
]

THOROUGH = QUICK + [
]


def table(tier):
    return THOROUGH if tier == "thorough" else QUICK


def for_property(prop, tier):
    return [(n, a) for (n, a, ps, ex) in table(tier) if prop in ps]


def meta(prop, tier):
    return [{"name": n, "exhaustive": ex} for (n, a, ps, ex) in table(tier) if prop in ps]
