"""(M) TLC on the implementation-shaped model: spec/PPGEngineMC.tla (engine model PPGEngine +
world + environment), one invariant Inv_<property> per property, the predicates being the very
operators of PPGProps that the trace monitors evaluate on the real engine.

The result depends on the specification only (not on /repo), so it is cached per specification
text and configuration; what ties it to the code is the strict conformance pass of bin/check
(every recorded transition of the real engine is the model's transition)."""
import hashlib
import json
import os
import re
import shutil
import subprocess
import time

from vlib import SPEC, SCRATCH, REPLAYS, TLA_CP, ToolError, log, spec_hash

INVS = ["C01", "C02", "C03", "C04", "C05", "C06", "C07", "C08", "C09", "C10", "C11", "C12", "C13",
        "C14", "C16", "C17", "C18", "C20", "H"]

BASE = {
    "NJobs": "2", "KindSets": "{}", "EdgeSets": "{}", "MaxEval": "2", "MaxFail": "1",
    "Edits": '{"d", "b", "n", "e"}', "WithAbort": "TRUE", "WithMisuse": "TRUE", "WithFlaky": "TRUE",
    "Cmps": '{"exact", "nostamp"}', "UsesModes": '{"all", "none"}', "AllOrders": "TRUE",
}

# name, overrides, exhaustive over the stated constants, timeout s
LIVE = {"NJobs": "3", "MaxEval": "1", "Edits": "{}", "WithAbort": "FALSE", "WithMisuse": "FALSE",
        "WithFlaky": "FALSE", "Cmps": '{"exact"}', "UsesModes": '{"all"}', "AllOrders": "FALSE", "LIVENESS": "1"}

QUICK = [
    ("n2e2", {}, True, 600),
    # C05 "every evaluation finishes": TLC liveness checking of <>finished under weak fairness of the
    # driver's progress actions (no state constraint)
    ("n3live", LIVE, True, 600),
]
THOROUGH = [
    ("n3live", dict(LIVE, AllOrders="TRUE", MaxEval="2", Edits='{"d", "b"}'), True, 3600),
    ("n2e3", {"MaxEval": "3"}, True, 1800),
    ("n3e1", {"NJobs": "3", "MaxEval": "1", "WithFlaky": "FALSE"}, True, 3600),
    ("n3e2", {"NJobs": "3", "MaxEval": "2", "Edits": '{"d", "b"}', "WithMisuse": "FALSE", "WithFlaky": "FALSE",
              "Cmps": '{"exact"}', "UsesModes": '{"all"}', "AllOrders": "FALSE", "WithAbort": "TRUE"}, True, 7200),
]


def _cfg_text(consts):
    live = "LIVENESS" in consts
    lines = ["SPECIFICATION FairSpec" if live else "SPECIFICATION Spec", "CONSTANTS"]
    for k, v in consts.items():
        if k != "LIVENESS":
            lines.append("  %s = %s" % (k, v))
    if live:
        lines.append("PROPERTY EventuallyFinished")
    lines.append("INVARIANTS " + " ".join("Inv_" + p for p in INVS))
    lines.append("CHECK_DEADLOCK FALSE")
    return "\n".join(lines) + "\n"


def _run_one(name, over, exhaustive, timeout, workdir):
    consts = dict(BASE)
    consts.update(over)
    cfg = _cfg_text(consts)
    key = hashlib.sha256((spec_hash() + cfg).encode()).hexdigest()[:16]
    cdir = os.path.join(SCRATCH, "mc")
    os.makedirs(cdir, exist_ok=True)
    cache = os.path.join(cdir, "%s-%s.json" % (name, key))
    if os.path.exists(cache) and not os.environ.get("VERIF_NOCACHE"):
        with open(cache) as f:
            r = json.load(f)
        r["cached"] = True
        return r
    os.makedirs(workdir, exist_ok=True)
    cfgp = os.path.join(workdir, "MC_%s.cfg" % name)
    with open(cfgp, "w") as f:
        f.write(cfg)
    md = os.path.join(workdir, "md-" + name)
    out = os.path.join(workdir, "MC_%s.out" % name)
    env = dict(os.environ)
    env["JAVA_TOOL_OPTIONS"] = "-Xss512m"
    workers = os.environ.get("VERIF_TLC_WORKERS", "12")
    cmd = ["java", "-XX:+UseParallelGC", "-Xmx16g", "-cp", TLA_CP, "tlc2.TLC", "-workers", workers,
           "-metadir", md, "-cleanup", "-noGenerateSpecTE", "-continue", "-config", cfgp, "PPGEngineMC.tla"]
    t0 = time.time()
    try:
        with open(out, "w") as lf:
            p = subprocess.run(cmd, cwd=SPEC, env=env, stdout=lf, stderr=subprocess.STDOUT, timeout=timeout)
    except subprocess.TimeoutExpired:
        raise ToolError("TLC model checking timed out: " + name)
    finally:
        shutil.rmtree(md, ignore_errors=True)
    txt = open(out, errors="replace").read()
    m = re.search(r"(\d+) states generated, (\d+) distinct states found, (\d+) states left on queue", txt)
    if not m:
        raise ToolError("TLC model checking failed (%s): %s" % (name, txt[-1500:]))
    violated = sorted(set(re.findall(r"Invariant Inv_(\w+) is violated", txt)))
    if "Temporal properties were violated" in txt:
        violated = sorted(set(violated) | {"C05"})
    other_err = [l for l in re.findall(r"^Error: (.*)$", txt, re.M)
                 if "Invariant" not in l and "behavior up to this point" not in l and "Temporal properties" not in l]
    if other_err:
        raise ToolError("TLC error in model %s: %s" % (name, other_err[0][:300]))
    depth = re.search(r"depth of the complete state graph search is (\d+)", txt)
    r = {"config": name, "constants": consts, "states_generated": int(m.group(1)),
         "distinct_states": int(m.group(2)), "left_on_queue": int(m.group(3)),
         "depth": int(depth.group(1)) if depth else None,
         "violated_invariants": violated, "exhaustive": bool(exhaustive and int(m.group(3)) == 0),
         "wall_s": round(time.time() - t0, 1), "cmd": " ".join(cmd[3:]), "cached": False}
    if violated:
        os.makedirs(REPLAYS, exist_ok=True)
        rp = os.path.join(REPLAYS, "model-%s-%s.txt" % (name, key))
        with open(rp, "w") as f:
            f.write(txt[:2000000])
        r["replay"] = rp
    else:
        os.remove(out)
    with open(cache, "w") as f:
        json.dump(r, f)
    return r


DEPTH_INVS = ["NoLimitHit", "WavesLinear", "FinishedOK"]


def _run_depth(tier, workdir):
    """C19 on the model: spec/PPGDepth.tla (size families, waves per call linear in the size)"""
    maxn = "14" if tier == "thorough" else "10"
    cfg = ("SPECIFICATION DSpec\nCONSTANTS\n  NJobs = %s\n  MaxN = %s\n"
           '  Families = {"chain", "erun", "fanout", "fanin", "layers"}\n  GuardBase = 1500\n  GuardPerJob = 10\n'
           "INVARIANTS %s\nCHECK_DEADLOCK FALSE\n" % (maxn, maxn, " ".join(DEPTH_INVS)))
    key = hashlib.sha256((spec_hash() + cfg).encode()).hexdigest()[:16]
    cdir = os.path.join(SCRATCH, "mc")
    os.makedirs(cdir, exist_ok=True)
    cache = os.path.join(cdir, "depth-%s.json" % key)
    if os.path.exists(cache) and not os.environ.get("VERIF_NOCACHE"):
        r = json.load(open(cache))
        r["cached"] = True
        return r
    os.makedirs(workdir, exist_ok=True)
    cfgp = os.path.join(workdir, "PPGDepth.cfg")
    open(cfgp, "w").write(cfg)
    md = os.path.join(workdir, "md-depth")
    out = os.path.join(workdir, "PPGDepth.out")
    env = dict(os.environ)
    env["JAVA_TOOL_OPTIONS"] = "-Xss512m"
    cmd = ["java", "-XX:+UseParallelGC", "-Xmx8g", "-cp", TLA_CP, "tlc2.TLC", "-workers", "8",
           "-metadir", md, "-cleanup", "-noGenerateSpecTE", "-continue", "-config", cfgp, "PPGDepth.tla"]
    t0 = time.time()
    try:
        with open(out, "w") as lf:
            subprocess.run(cmd, cwd=SPEC, env=env, stdout=lf, stderr=subprocess.STDOUT, timeout=3600)
    except subprocess.TimeoutExpired:
        raise ToolError("TLC timed out on PPGDepth")
    finally:
        shutil.rmtree(md, ignore_errors=True)
    txt = open(out, errors="replace").read()
    m = re.search(r"(\d+) states generated, (\d+) distinct states found, (\d+) states left on queue", txt)
    if not m:
        raise ToolError("TLC failed on PPGDepth: " + txt[-1500:])
    violated = sorted(set(re.findall(r"Invariant (\w+) is violated", txt)))
    other = [l for l in re.findall(r"^Error: (.*)$", txt, re.M) if "Invariant" not in l and "behavior up to" not in l]
    if other:
        raise ToolError("TLC error in PPGDepth: " + other[0][:300])
    r = {"config": "PPGDepth MaxN=%s" % maxn, "constants": {"MaxN": maxn}, "states_generated": int(m.group(1)),
         "distinct_states": int(m.group(2)), "left_on_queue": int(m.group(3)), "depth": None,
         "violated_invariants": ["C19"] if violated else [], "violated_names": violated,
         "exhaustive": int(m.group(3)) == 0, "wall_s": round(time.time() - t0, 1), "cmd": " ".join(cmd[3:]), "cached": False}
    if violated:
        os.makedirs(REPLAYS, exist_ok=True)
        rp = os.path.join(REPLAYS, "model-depth-%s.txt" % key)
        open(rp, "w").write(txt[:2000000])
        r["replay"] = rp
    else:
        os.remove(out)
    json.dump(r, open(cache, "w"))
    return r


def run(prop, tier, workdir):
    if os.environ.get("VERIF_NOMODEL"):
        return {}
    if prop == "C19":
        r = _run_depth(tier, workdir)
        log("model %s distinct=%d violated=%s %s" % (r["config"], r["distinct_states"], r.get("violated_names"),
                                                     "(cached)" if r["cached"] else "%.0fs" % r["wall_s"]))
        res = {"invariant": "NoLimitHit, WavesLinear, FinishedOK of spec/PPGDepth.tla",
               "runs": [{k: r[k] for k in ("config", "constants", "distinct_states", "states_generated", "violated_invariants", "exhaustive", "wall_s", "cached")}],
               "distinct_states": r["distinct_states"], "states_generated": r["states_generated"],
               "exhaustive": r["exhaustive"], "violations": 1 if r["violated_invariants"] else 0, "cmd": r["cmd"]}
        if r["violated_invariants"]:
            res["replay"] = r["replay"]
        return res
    if prop not in INVS:
        return {}
    runs = []
    for name, over, ex, to in (THOROUGH if tier == "thorough" else QUICK):
        r = _run_one(name, over, ex, to, workdir)
        log("model %-5s distinct=%d generated=%d depth=%s violated=%s %s" % (
            name, r["distinct_states"], r["states_generated"], r["depth"], r["violated_invariants"],
            "(cached)" if r["cached"] else "%.0fs" % r["wall_s"]))
        runs.append(r)
    bad = [r for r in runs if prop in r["violated_invariants"]]
    res = {
        "invariant": "Inv_%s of spec/PPGEngineMC.tla" % prop,
        "runs": [{k: r[k] for k in ("config", "constants", "distinct_states", "states_generated", "depth",
                                    "violated_invariants", "exhaustive", "wall_s", "cached")} for r in runs],
        "distinct_states": sum(r["distinct_states"] for r in runs),
        "states_generated": sum(r["states_generated"] for r in runs),
        "exhaustive": all(r["exhaustive"] for r in runs),
        "violations": len(bad),
        "cmd": "; ".join(sorted(set(r["cmd"] for r in runs))),
    }
    if bad:
        res["replay"] = bad[0]["replay"]
    return res
