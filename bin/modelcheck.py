"""(M) TLC on the implementation-shaped model spec/PPGEngine.tla."""
import os


def run(prop, tier, workdir):
    return {}
