"""Known findings: genuine defects of the engine that are recorded rather than repaired.
The file is read-only at run time. A finding is identified by the failing clause AND a signature
(predicate over the described violation), so a different violation of the same property is still
reported."""
import json, os

PATH = "/verif/known_findings.json"


def load():
    if not os.path.exists(PATH):
        return []
    with open(PATH) as f:
        data = json.load(f)
    return [x for x in data.get("findings", []) if x.get("status") == "open"]


def _sig_ok(sig, d):
    """sig: dict of conditions, all must hold"""
    for k, v in sig.items():
        if k == "msg_contains":
            msg = d.get("msg", "") or d.get("end", {}).get("msg", "")
            if v not in msg:
                return False
        elif k == "call":
            if d.get("call", {}).get("name") != v:
                return False
        elif k == "kinds_path":
            # a path u->...->d of the given kinds exists in the graph
            if not _has_kind_path(d["ctx"], v):
                return False
        elif k == "edit_prefix":
            if not str(d["ctx"].get("edit", "")).startswith(v):
                return False
        else:
            return False
    return True


def _has_kind_path(ctx, kinds):
    edges = [tuple(e) for e in ctx["edges"]]
    def rec(j, i):
        if ctx["kind"][j] != kinds[i]:
            return False
        if i == len(kinds) - 1:
            return True
        return any(rec(b, i + 1) for (a, b) in edges if a == j)
    return any(rec(j, 0) for j in ctx["nodes"])


def match(known, prop, clause, d):
    for f in known:
        if f["property"] != prop:
            continue
        if clause not in f["clauses"]:
            continue
        if _sig_ok(f.get("signature", {}), d):
            return f
    return None
