------------------------------- MODULE PPGRef -------------------------------
(***************************************************************************)
(* Reference semantics of pypipegraph2's evaluation engine: what "up to    *)
(* date", "clean build", "blocked by a failure" and "nobody can need it"   *)
(* MEAN, as pure functions of an evaluation context.  Shared by the        *)
(* implementation-shaped model (PPGEngine) and by the trace specification  *)
(* (PPGTrace), so that a property predicate is the same text whether it is *)
(* evaluated on a model state or on a state recorded from the real code.   *)
(*                                                                         *)
(* An evaluation context c is a record                                     *)
(*   nodes : sequence of job ids (sorted; gives the canonical order)       *)
(*   kind  : [job -> "A" | "O" | "E"]   Always / Output / Ephemeral        *)
(*   edges : sequence of <<upstream, downstream>>                          *)
(*   names : [job -> sequence of output names]  (id = names joined by :::) *)
(*   needs : [job -> output names declared as inputs]                      *)
(*   uses  : [job -> output names the behaviour really depends on]         *)
(*   conv  : "ids" | "names"     input-name convention                     *)
(*   cmp   : "exact" | "nostamp" configured comparison                     *)
(*   ver   : [job -> Nat]        external version (only Always jobs vary)  *)
(*   evalno: Nat                 stamp of everything reported now          *)
(*   hist0 : [key -> value]      history handed in                         *)
(*   file0 : [job -> content]    output files present at startup           *)
(* Values are records [c |-> [name |-> content], s |-> stamp] (s optional),*)
(* contents are records [j |-> name, v |-> ver, i |-> [name |-> content]]. *)
(***************************************************************************)
EXTENDS Naturals, Sequences, FiniteSets, TLC

ToSet(s) == {s[i] : i \in DOMAIN s}

Nodes(c) == ToSet(c.nodes)
Edges(c) == {<<e[1], e[2]>> : e \in ToSet(c.edges)}
Ups(c, j) == {e[1] : e \in {x \in Edges(c) : x[2] = j}}
Downs(c, j) == {e[2] : e \in {x \in Edges(c) : x[1] = j}}
NamesOf(c, j) == ToSet(c.names[j])
Producer(c, m) == CHOOSE j \in Nodes(c) : m \in NamesOf(c, j)
HasProducer(c, m) == \E j \in Nodes(c) : m \in NamesOf(c, j)

(* history keys, exactly as engine.rs builds them *)
OKey(j) == j
NKey(j) == j \o "!!!"
EKey(u, d) == u \o "!!!" \o d

(***************************************************************************)
(* "Ephemeral jobs on which no non-Ephemeral job depends through Ephemeral *)
(* jobs only": nobody can need them (exemption of C03, C04, C07).          *)
(***************************************************************************)
RECURSIVE LeafyRec(_, _)
LeafyRec(c, j) == c.kind[j] = "E" /\ \A d \in Downs(c, j) : LeafyRec(c, d)
LeafySet(c) == {j \in Nodes(c) : LeafyRec(c, j)}

(* topological order as a sequence of layers, then flattened *)
RECURSIVE TopoRec(_, _, _)
TopoRec(c, done, acc) ==
  LET rem == Nodes(c) \ done
      lay == {j \in rem : Ups(c, j) \subseteq done}
  IN IF rem = {} THEN acc
     ELSE TopoRec(c, done \cup lay, acc \o <<lay>>)
TopoLayers(c) == TopoRec(c, {}, <<>>)

RECURSIVE Ancestors(_, _)
Ancestors(c, j) == Ups(c, j) \cup UNION {Ancestors(c, u) : u \in Ups(c, j)}

(***************************************************************************)
(* The configured comparison.  d is the consuming job ("" = compare all).  *)
(***************************************************************************)
IsVal(v) == "c" \in DOMAIN v
Altered(c, d, old, new) ==
  IF old = new THEN FALSE
  ELSE IF ~(IsVal(old) /\ IsVal(new)) THEN TRUE
  ELSE IF c.conv = "names" /\ d # "" /\ d \in Nodes(c)
       THEN \E m \in (DOMAIN old.c \cup DOMAIN new.c) \cap ToSet(c.needs[d]) :
               \/ m \notin DOMAIN old.c \/ m \notin DOMAIN new.c
               \/ old.c[m] # new.c[m]
       ELSE IF c.cmp = "exact" THEN TRUE ELSE old.c # new.c

(* the list of input names of j under the configured convention, as a set *)
InputNames(c, j) == IF c.conv = "ids" THEN Ups(c, j) ELSE ToSet(c.needs[j])

(***************************************************************************)
(* Up to date: a record of an earlier successful execution with the same   *)
(* set of input names, each direct upstream currently has the output that  *)
(* execution consumed (configured comparison), and an Output job's result  *)
(* exists.  cur = current output of each job (partial function).           *)
(***************************************************************************)
(***************************************************************************)
(* try_finding_renamed_multi_output_job: the historical upstream of d      *)
(* sharing the most output names with the (now differently named) u.       *)
(* The code takes the first maximum in hash order; ties are resolved here  *)
(* by CHOOSE (deviation: tie order is not modelled).                       *)
(***************************************************************************)
Overlap(c, x, u) == Cardinality(ToSet(c.idnames[x]) \cap ToSet(c.idnames[u]))
RenamedFor(c, u, d) ==
  LET cands == {x \in ToSet(c.ids) : EKey(x, d) \in DOMAIN c.hist0 /\ Overlap(c, x, u) > 0}
      best == {x \in cands : \A y \in cands : Overlap(c, y, u) <= Overlap(c, x, u)}
  IN IF cands = {} THEN <<>> ELSE <<CHOOSE x \in best : TRUE>>

(* the record of what j last consumed from u: under u's present id, or - when u is a job whose
   id changed because it gained or lost outputs - under the historical id sharing the most output
   names with it *)
EdgeRec(c, u, j) ==
  IF EKey(u, j) \in DOMAIN c.hist0 THEN <<c.hist0[EKey(u, j)]>>
  ELSE LET r == RenamedFor(c, u, j) IN
       IF r # <<>> THEN <<c.hist0[EKey(r[1], j)]>> ELSE <<>>

UpToDate(c, cur, present, j) ==
  /\ OKey(j) \in DOMAIN c.hist0
  /\ NKey(j) \in DOMAIN c.hist0
  /\ ToSet(c.hist0[NKey(j)].names) = InputNames(c, j)
  /\ \A u \in Ups(c, j) :
        /\ EdgeRec(c, u, j) # <<>>
        /\ u \in DOMAIN cur
        /\ ~Altered(c, j, EdgeRec(c, u, j)[1], cur[u])
  /\ (c.kind[j] = "O" => j \in present)

(***************************************************************************)
(* Job behaviour: the content a job produces from the contents it read.    *)
(* read : [output name -> content] for (at least) the names in uses[j].    *)
(***************************************************************************)
Beh(c, j, read, nonce) ==
  [m \in NamesOf(c, j) |->
     IF nonce = 0
     THEN [j |-> m, v |-> c.ver[j], i |-> [x \in ToSet(c.uses[j]) |-> read[x]]]
     ELSE [j |-> m, v |-> c.ver[j], i |-> [x \in ToSet(c.uses[j]) |-> read[x]], n |-> nonce]]

(* what building the current graph from scratch produces: [job -> content map] *)
RECURSIVE CleanRec(_, _, _)
CleanRec(c, layers, acc) ==
  IF layers = <<>> THEN acc
  ELSE LET lay == Head(layers)
           val(j) == Beh(c, j, [x \in ToSet(c.uses[j]) |-> acc[Producer(c, x)][x]], 0)
       IN CleanRec(c, Tail(layers),
                   [j \in DOMAIN acc \cup lay |-> IF j \in lay THEN val(j) ELSE acc[j]])
CleanBuild(c) == CleanRec(c, TopoLayers(c), <<>>)

(***************************************************************************)
(* Blocked by failures: least set closed under "not started and some       *)
(* direct upstream failed or is blocked".  A job in `through` (validly     *)
(* skipped before the failure happened: it was never going to run, so the  *)
(* failure did not prevent it from running) is itself blocked when a       *)
(* direct upstream failed, but does not pass the blockage on - the         *)
(* property leaves open whether its dependants still run.                  *)
(***************************************************************************)
RECURSIVE BlockedRec(_, _, _, _, _)
BlockedRec(c, failed, started, nopass, acc) ==
  LET more == {j \in Nodes(c) \ (acc \cup started \cup failed) :
                  \E u \in Ups(c, j) : u \in failed \/ (u \in acc /\ u \notin nopass)}
  IN IF more = {} THEN acc ELSE BlockedRec(c, failed, started, nopass, acc \cup more)
Blocked(c, failed, started, nopass) == BlockedRec(c, failed, started, nopass, {})

(* jobs with a failed ancestor *)
RECURSIVE TaintRec(_, _, _)
TaintRec(c, failed, acc) ==
  LET more == {j \in Nodes(c) \ acc : \E u \in Ups(c, j) : u \in failed \/ u \in acc}
  IN IF more = {} THEN acc ELSE TaintRec(c, failed, acc \cup more)
FailedAncestor(c, failed) == TaintRec(c, failed, {})

(* Ephemeral jobs an Always job consumes directly or through Ephemeral jobs *)
RECURSIVE FeedsAlways(_, _)
FeedsAlways(c, j) ==
  c.kind[j] = "E" /\ \E d \in Downs(c, j) : c.kind[d] = "A" \/ FeedsAlways(c, d)

(***************************************************************************)
(* Reference decisions of a failure-free evaluation (used by the model;    *)
(* on traces the same facts are judged on observed outputs instead).       *)
(*   RefInv[j]  j is not up to date                                        *)
(*   RefVal[j]  current output of j                                        *)
(*   RefRun     set of jobs executed                                       *)
(***************************************************************************)
Stamp(c, content) == IF c.cmp = "exact" THEN [c |-> content]
                     ELSE [c |-> content, s |-> c.evalno]

RECURSIVE RefRec(_, _, _)
RefRec(c, layers, acc) ==
  \* acc = [inv |-> [job -> BOOLEAN], val |-> [job -> value], con |-> [job -> content map]]
  IF layers = <<>> THEN acc
  ELSE LET lay == Head(layers)
           inv(j) == ~UpToDate(c, acc.val, DOMAIN c.file0, j)
           con(j) == IF c.kind[j] = "A" \/ inv(j) \/ c.kind[j] = "E"
                     THEN Beh(c, j, [x \in ToSet(c.uses[j]) |-> acc.con[Producer(c, x)][x]], 0)
                     ELSE c.file0[j]
           val(j) == IF c.kind[j] = "A" \/ inv(j) THEN Stamp(c, con(j)) ELSE c.hist0[OKey(j)]
           D == DOMAIN acc.inv \cup lay
       IN RefRec(c, Tail(layers),
                 [inv |-> [j \in D |-> IF j \in lay THEN inv(j) ELSE acc.inv[j]],
                  val |-> [j \in D |-> IF j \in lay THEN val(j) ELSE acc.val[j]],
                  con |-> [j \in D |-> IF j \in lay THEN con(j) ELSE acc.con[j]]])
Ref(c) == RefRec(c, TopoLayers(c), [inv |-> <<>>, val |-> <<>>, con |-> <<>>])

RECURSIVE RefRunRec(_, _, _, _)
RefRunRec(c, inv, layers, acc) ==
  \* layers in reverse topological order
  IF layers = <<>> THEN acc
  ELSE LET lay == Head(layers)
           run(j) == /\ ~LeafyRec(c, j)
                     /\ \/ c.kind[j] = "A"
                        \/ inv[j]
                        \/ c.kind[j] = "E" /\ \E d \in Downs(c, j) : d \in acc
       IN RefRunRec(c, inv, Tail(layers), acc \cup {j \in lay : run(j)})
Reverse(s) == [i \in 1..Len(s) |-> s[Len(s) + 1 - i]]
RefRun(c) == RefRunRec(c, Ref(c).inv, Reverse(TopoLayers(c)), {})
=============================================================================
