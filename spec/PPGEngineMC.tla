----------------------------- MODULE PPGEngineMC -----------------------------
(***************************************************************************)
(* TLC model of the whole system: the engine model PPGEngine, the world    *)
(* around it (files, temporary products, job behaviours, the driver's      *)
(* bookkeeping) and the environment (any schedule, any degree of           *)
(* concurrency, delayed cleanup acknowledgements, failing jobs, flaky      *)
(* Ephemerals, aborts, protocol misuse, chains of evaluations with edits   *)
(* in between, every iteration order of the dag).                          *)
(*                                                                         *)
(* One TLC step = one driver call up to its first signal, or ONE handled   *)
(* signal (the intermediate states inside a call are ordinary states), or  *)
(* the transition to the next evaluation of a chain.                       *)
(*                                                                         *)
(* The properties of /verif/properties.jsonl are the predicates of         *)
(* PPGProps, evaluated on Obs(c, e, w) - the same operator text that       *)
(* PPGTrace evaluates on states recorded from the real engine.  One        *)
(* invariant Inv_Cxx per property.                                         *)
(***************************************************************************)
EXTENDS PPGWorld

CONSTANTS   \* (NJobs, the number of jobs of the universe graph, is declared by PPGWorld)
  KindSets,     \* set of kind vectors to explore, as sequences over {"A","O","E"}; {} = all
  EdgeSets,     \* set of edge sets (sets of <<i, k>>, i < k) to explore; {} = all forward sets
  MaxEval,      \* length of the chain of evaluations
  MaxFail,      \* max size of the failure set of an evaluation
  Edits,        \* subset of {"d", "b", "n", "e"}: edit classes between evaluations
  WithAbort,    \* BOOLEAN: the driver may abort at any quiescent point (both variants)
  WithMisuse,   \* BOOLEAN: every illegal call in every quiescent state
  WithFlaky,    \* BOOLEAN: one Ephemeral per evaluation may report a different output when re-run
  Cmps,         \* subset of {"exact", "nostamp"}
  UsesModes,    \* subset of {"all", "none"}: job behaviours depend on all / none of their inputs
  AllOrders     \* BOOLEAN: every iteration order of the dag (else the canonical one)

VARIABLES
  c,    \* evaluation context (PPGRef)
  e,    \* engine state (PPGEngine)
  w,    \* the world and the driver's bookkeeping
  u,    \* the universe (full graph edits draw from), position in the chain, previous evaluation
  pre   \* observable state at the last driver call, the call and its result (for step clauses)
vars == <<c, e, w, u, pre>>

OrdsOf(cc) ==
  LET N == Nodes(cc)
      D == DagEdges(cc)
      In == N \ LeafySet(cc)
      upS(j) == {x[1] : x \in {y \in D : y[2] = j}}
      dnS(j) == {x[2] : x \in {y \in D : y[1] = j}}
      canon == CanonOrd(cc)
  IN IF ~AllOrders THEN {canon}
     ELSE {[canon EXCEPT !.up = upf, !.dn = dnf, !.nodes = ns] :
             upf \in {f \in [N -> UNION {Perms(upS(j)) : j \in N}] : \A j \in N : f[j] \in Perms(upS(j))},
             dnf \in {f \in [N -> UNION {Perms(dnS(j)) : j \in N}] : \A j \in N : f[j] \in Perms(dnS(j))},
             ns \in Perms(In)}

(***************************************************************************)
(* Init: every universe graph, comparison, behaviour mode; empty history   *)
(***************************************************************************)
KindVecs == IF KindSets = {} THEN [AllJobs -> {"A", "O", "E"}]
            ELSE {[j \in AllJobs |-> ks[CHOOSE i \in 1..NJobs : JobName(i - 1) = j]] : ks \in KindSets}
EdgeChoices == IF EdgeSets = {} THEN SUBSET Fwd ELSE EdgeSets
FailSets(N) == {F \in SUBSET N : Cardinality(F) <= MaxFail}
FlakySets(kind) == IF WithFlaky
                   THEN {{}} \cup {{j} : j \in {x \in DOMAIN kind : kind[x] = "E"}}
                   ELSE {{}}

Init ==
  \E kind \in KindVecs, es \in EdgeChoices, um \in UsesModes, cmp \in Cmps :
    LET edges == {<<JobName(p[1]), JobName(p[2])>> : p \in es} IN
    \E fail \in FailSets(AllJobs) :
      /\ c = MkCtx(kind, edges, um, cmp, [j \in AllJobs |-> 0], 1, <<>>, <<>>, fail, {}, TRUE,
                   "first", {})
      /\ e = EInit(c)
      /\ w = W0(<<>>)
      /\ u = [kind |-> kind, edges |-> edges, evalno |-> 1, prev |-> NoPrev, tainted |-> FALSE]
      /\ pre = NoPre

(***************************************************************************)
(* actions                                                                 *)
(***************************************************************************)
Quiet == e.sigq = <<>>
Alive2 == e.err = ""
Running == Quiet /\ Alive2 /\ e.phase = "Running"

Take(r, call, mis) ==
  LET t == Settle(c, r) IN
  /\ e' = t.e
  /\ w' = t.w
  /\ pre' = [s |-> Obs(c, e, w), call |-> call, mis |-> mis, res |-> r.res]
  /\ UNCHANGED <<c, u>>

DoStartup ==
  /\ e.phase = "NotStarted" /\ Alive2
  /\ \E ord \in OrdsOf(c) : Take(DStartup(c, e, w, ord), [name |-> "startup", job |-> ""], FALSE)

(* one handled signal *)
Micro ==
  /\ ~Quiet /\ Alive2
  /\ LET t == Settle(c, [e |-> HandleOne(c, e), w |-> w]) IN e' = t.e /\ w' = t.w
  /\ UNCHANGED <<c, u, pre>>

Start(j) ==
  /\ Running /\ ~w.aborting /\ j \in e.ready
  /\ Take(DStart(c, e, w, j), [name |-> "start", job |-> j], FALSE)
Succeed(j) ==
  /\ Running /\ ~w.aborting /\ j \in RunningJobs(c, e) /\ j \notin ToSet(c.fail)
  /\ Take(DSucceed(c, e, w, j), [name |-> "success", job |-> j], FALSE)
Fail(j) ==
  /\ Running /\ ~w.aborting /\ j \in RunningJobs(c, e) /\ j \in ToSet(c.fail)
  /\ Take(DFail(c, e, w, j, FALSE), [name |-> "fail", job |-> j], FALSE)
(* the python runner reports the running jobs as failed before it aborts; the other variant
   aborts with jobs still running *)
FailX(j) ==
  /\ WithAbort /\ Running /\ j \in RunningJobs(c, e)
  /\ Take(DFail(c, e, w, j, TRUE), [name |-> "failx", job |-> j], FALSE)
Abort ==
  /\ WithAbort /\ Running /\ (w.aborting => RunningJobs(c, e) = {})
  /\ Take(DAbort(c, e, w), [name |-> "abort", job |-> ""], FALSE)
Cleanup(j) ==
  /\ Quiet /\ Alive2 /\ e.phase # "NotStarted" /\ ~w.aborting /\ j \in e.cleanup
  /\ Take(DCleanup(c, e, w, j), [name |-> "cleanup", job |-> j], FALSE)

(* every illegal call on every known job *)
Misuse ==
  /\ WithMisuse /\ Running
  /\ \E j \in Nodes(c), n \in {"badstart", "badsuccess", "badfail", "badcleanup", "badstartup"} :
       LET p == CASE n = "badstart" -> NowRunning(c, e, j)
                  [] n = "badsuccess" -> FinishedSuccessPre(c, e, j, [c |-> [BOGUS |-> TRUE]])
                  [] n = "badfail" -> FinishedFailurePre(c, e, j)
                  [] n = "badcleanup" -> CleanupDonePre(c, e, j)
                  [] n = "badstartup" -> StartupPre(c, e, e.ord)
           legal == CASE n = "badstart" -> j \in e.ready
                      [] n \in {"badsuccess", "badfail"} -> j \in RunningJobs(c, e)
                      [] n = "badcleanup" -> j \in e.cleanup
                      [] n = "badstartup" -> FALSE
       IN /\ ~legal
          /\ Take([e |-> p.e, w |-> w, res |-> p.res], [name |-> n, job |-> j], TRUE)

(***************************************************************************)
(* the next evaluation of the chain: history and files carried over, one   *)
(* edit (or none), a new failure set; after an interrupted evaluation the  *)
(* failure-free resume with nothing else changed                           *)
(***************************************************************************)
Finished == Quiet /\ Alive2 /\ e.phase = "Finished" /\ e.cleanup = {}

EditsOf ==
  LET N == Nodes(c)
      E == Edges(c)
  IN {[t |-> "none"]}
     \cup (IF "d" \in Edits THEN {[t |-> "delete", j |-> j] : j \in {x \in N : x \in DOMAIN w.file}} ELSE {})
     \cup (IF "b" \in Edits THEN {[t |-> "bump", j |-> j] : j \in {x \in N : c.kind[x] = "A"}} ELSE {})
     \cup (IF "n" \in Edits
           THEN {[t |-> "rmnode", j |-> j] : j \in {x \in N : Cardinality(N) > 1}}
                \cup {[t |-> "addnode", j |-> j] : j \in AllJobs \ N}
           ELSE {})
     \cup (IF "e" \in Edits
           THEN {[t |-> "rmedge", a |-> x[1], b |-> x[2]] : x \in E}
                \cup {[t |-> "addedge", a |-> x[1], b |-> x[2]] :
                        x \in {y \in u.edges \ E : y[1] \in N /\ y[2] \in N}}
           ELSE {})

ApplyEdit(ed, kind, edges, ver, files) ==
  CASE ed.t = "none" -> [kind |-> kind, edges |-> edges, ver |-> ver, files |-> files]
    [] ed.t = "delete" -> [kind |-> kind, edges |-> edges, ver |-> ver, files |-> Del(files, ed.j)]
    [] ed.t = "bump" -> [kind |-> kind, edges |-> edges, ver |-> [ver EXCEPT ![ed.j] = @ + 1],
                         files |-> files]
    [] ed.t = "rmnode" -> [kind |-> Del(kind, ed.j),
                           edges |-> {x \in edges : x[1] # ed.j /\ x[2] # ed.j},
                           ver |-> ver, files |-> files]
    [] ed.t = "addnode" ->
         LET k2 == Put(kind, ed.j, u.kind[ed.j]) IN
         [kind |-> k2,
          edges |-> edges \cup {x \in u.edges : (x[1] = ed.j \/ x[2] = ed.j)
                                               /\ x[1] \in DOMAIN k2 /\ x[2] \in DOMAIN k2},
          ver |-> ver, files |-> files]
    [] ed.t = "rmedge" -> [kind |-> kind, edges |-> edges \ {<<ed.a, ed.b>>}, ver |-> ver,
                           files |-> files]
    [] ed.t = "addedge" -> [kind |-> kind, edges |-> edges \cup {<<ed.a, ed.b>>}, ver |-> ver,
                            files |-> files]

NextEval ==
  /\ Finished /\ u.evalno < MaxEval
  /\ LET nh == NewHistory(c, e)
         s == Obs(c, e, w)
         clean == Clean(s)
         outs == {j \in Nodes(c) : c.kind[j] = "O"}
         prevrec == [s |-> s, nh |-> nh.res, h1 |-> nh.h, clean |-> clean, c |-> c]
     IN
     /\ nh.res = "ok"
     /\ \/ \* after a clean evaluation: any single edit, any fault set
           /\ clean
           /\ \E ed \in EditsOf :
                LET r == ApplyEdit(ed, c.kind, Edges(c), c.ver, w.file) IN
                \E fail \in FailSets(DOMAIN r.kind), fl \in FlakySets(r.kind) :
                  /\ c' = MkCtx(r.kind, r.edges, c.usesmode, c.cmp, r.ver, c.evalno + 1, nh.h,
                                r.files, fail, fl, ~u.tainted /\ fl = {}, ed.t, {})
                  /\ u' = [u EXCEPT !.evalno = @ + 1, !.prev = prevrec,
                                    !.tainted = @ \/ fl # {}]
                  /\ e' = EInit(c')
                  /\ w' = W0(r.files)
        \/ \* after a failed / aborted evaluation: the failure-free resume, nothing else changed
           /\ ~clean
           /\ c' = MkCtx(c.kind, Edges(c), c.usesmode, c.cmp, c.ver, c.evalno + 1, nh.h, w.file,
                         {}, {}, ~u.tainted /\ c.flaky = <<>>, "resume",
                         ToSet(c.prevsucc) \cup (w.succ \cap outs))
           /\ u' = [u EXCEPT !.evalno = @ + 1, !.prev = prevrec, !.tainted = @ \/ c.flaky # <<>>]
           /\ e' = EInit(c')
           /\ w' = W0(w.file)
     /\ pre' = NoPre

Next ==
  \/ DoStartup \/ Micro
  \/ \E j \in Nodes(c) : Start(j) \/ Succeed(j) \/ Fail(j) \/ FailX(j) \/ Cleanup(j)
  \/ Abort \/ Misuse \/ NextEval

Spec == Init /\ [][Next]_vars
(* the driver keeps going: it starts what is offered and reports what it runs; aborting and
   misuse are optional *)
Progress == DoStartup \/ Micro \/ \E j \in Nodes(c) : Start(j) \/ Succeed(j) \/ Fail(j) \/ Cleanup(j)
FairSpec == Spec /\ WF_vars(Progress)

(***************************************************************************)
(* Properties: the clauses of PPGProps on the model, one invariant each    *)
(***************************************************************************)
CX == Derive(c)
S == Obs(c, e, w)
Stable == Quiet /\ Alive2 /\ e.phase # "NotStarted"
AtCall == Stable /\ pre # NoPre
AtEnd == Stable /\ e.phase = "Finished"
Ok(x) == x # "bad"
NH == NewHistory(c, e)
HasPrev == u.prev # NoPrev
IsResume == HasPrev /\ c.edit = "resume"
Unchanged == HasPrev /\ c.edit = "none" /\ u.prev.clean /\ c.fail = <<>> /\ c.flaky = <<>>
TrOK(x) == pre.call.name = "startup" \/ pre.mis \/ Ok(x)

Inv_C01 == AtEnd => Ok(C01a(CX, S))
Inv_C02 == Stable => Ok(C02a(CX, S)) /\ Ok(C02b(CX, S)) /\ Ok(C02c(CX, S)) /\ Ok(C02d(CX, S))
                     /\ Ok(C02e(CX, S))
Inv_C03 == AtEnd => Ok(C03a(CX, S))
Inv_C04 == AtEnd => /\ Ok(C04a(CX, S)) /\ Ok(C04b(CX, S))
                    /\ (Clean(S) /\ c.flaky = <<>> => w.started = RefRun(c))
                    \* (a flaky job behaves differently in its twin: not comparable)
                    /\ (~Clean(S) /\ c.flaky = <<>> => Ok(C04c(CX, S, TRUE, Twin(c).s)))
Inv_C05 == /\ (Stable => Ok(C05a(CX, S)) /\ Ok(C05b(CX, S)))
           /\ (AtCall => Ok(C05c(CX, pre.s, S, pre.call)))
           /\ e.depth <= 4 * NJobs + 4
Inv_C06 == /\ e.err = ""
           /\ (AtCall => Ok(C06a(pre.call, pre.res, pre.mis)) /\ Ok(C06b(CX, pre.call, pre.res)))
           /\ (AtEnd => Ok(C06c(S, NH.res)))
Inv_C07 == /\ (Stable => Ok(C07a(CX, S)) /\ Ok(C07c(CX, S)) /\ Ok(C07d(CX, S)))
           /\ (AtEnd => Ok(C07b(CX, S)))
           /\ (AtCall /\ ~pre.mis => Ok(C07f(CX, pre.s, S)))
           /\ (AtEnd /\ ~S.aborted /\ S.failed # {} /\ c.flaky = <<>>
                 => Ok(C07e(CX, S, TRUE, Twin(c).s)))
Inv_C08 == AtEnd => /\ Ok(C08a(CX, S, NH.res, NH.h)) /\ Ok(C08b(CX, S, NH.res, NH.h))
                    /\ (IsResume => Ok(C08c(CX, S, TRUE, u.prev.s)))
Inv_C09 == AtEnd => /\ Ok(C09a(CX, S, NH.res, NH.h))
                    /\ (IsResume => Ok(C09c(CX, S, TRUE)))
                    /\ (IsResume /\ u.prev.c.flaky = <<>> => LET t == Twin(u.prev.c) IN
                                    /\ Ok(C09b(CX, S, TRUE, TRUE, t.s))
                                    /\ Ok(C09d(CX, S, NH.res, NH.h, TRUE, TRUE, t.s, t.h1)))
Inv_C10 == /\ (AtCall => Ok(C10a(pre.call, pre.res)) /\ Ok(C10b(pre.call, pre.res, S)))
           /\ (AtEnd => Ok(C10c(S, NH.res)))
Inv_C11 == AtEnd => /\ Ok(C11a(CX, S, NH.res, NH.h)) /\ Ok(C11b(CX, S, NH.res, NH.h))
                    /\ Ok(C11c(CX, S, NH.res, NH.h)) /\ Ok(C11d(CX, S, NH.res, NH.h))
                    /\ Ok(C11e(CX, S, NH.res, NH.h))
Inv_C12 == AtEnd => /\ Ok(C12a(CX, S, Unchanged)) /\ Ok(C12b(CX, S, Unchanged))
                    /\ Ok(C12c(CX, S, NH.res, NH.h, Unchanged))
                    /\ Ok(C12d(CX, S, NH.res, Unchanged))
Inv_C13 == /\ (Stable => Ok(C13a(CX, S)) /\ Ok(C13b(CX, S)))
           /\ (AtCall => TrOK(C13c(pre.s, S, pre.call, pre.res)) /\ TrOK(C13d(pre.s, S))
                         /\ (pre.mis \/ Ok(C13f(CX, pre.s, S))))
           /\ (AtEnd => Ok(C13e(CX, S)))
(* every schedule, concurrency degree, cleanup timing and iteration order ends like the canonical
   run of the same context *)
Inv_C14 == AtEnd /\ Clean(S) /\ c.flaky = <<>> =>
             LET t == Twin(c) IN Ok(C14a(CX, S, NH.res, NH.h, TRUE, t.s, t.nh, t.h1))
Inv_C16 == /\ (AtCall => TrOK(C16a(CX, pre.s, S, pre.call, pre.res))
                         /\ TrOK(C16b(CX, pre.s, S, pre.call, pre.res)))
           /\ (AtEnd => Ok(C16c(CX, S, NH.res, NH.h)))
Inv_C17 == /\ (Stable => /\ Ok(C17a(CX, S)) /\ Ok(C17b(CX, S)) /\ Ok(C17c(CX, S))
                         /\ Ok(C17d(CX, S)) /\ Ok(C17e(CX, S)) /\ Ok(C17f(CX, S))
                         /\ Ok(C17g(CX, S)) /\ Ok(C17h(CX, S)))
           /\ (AtCall => /\ TrOK(C17i(pre.s, S, pre.call, pre.res)) /\ TrOK(C17j(CX, pre.s, S))
                         /\ TrOK(C17l(pre.s, S, pre.call, pre.res)))
           \* inside a call: every job-state change respects the lifecycle
           /\ \A i \in DOMAIN e.log : e.log[i][1] = "st" => StepOK(CX, e.log[i])
Inv_C18 == AtEnd => LET idn == [x \in AllJobs |-> {x}] IN
                    /\ Ok(C18a(CX, NH.h, AllJobs)) /\ Ok(C18b(CX, S, NH.res, NH.h, AllJobs, idn))
                    /\ Ok(C18c(CX, S, NH.res, NH.h, AllJobs, idn)) /\ Ok(C18d(CX, S, NH.res, NH.h))
                    /\ Ok(C18e(CX, S, NH.res, NH.h))
Inv_C20 == AtCall => /\ Ok(C20a(pre.res, pre.mis))
                     /\ Ok(C20b(pre.mis, [S EXCEPT !.qlen = 0] = [pre.s EXCEPT !.qlen = 0]))
(* honesty of the modelled driver (same clause the trace harness is held to) *)
Inv_H == Stable => Ok(H01(CX, S))

(* liveness (C05): every evaluation finishes, under fairness of the driver's progress actions *)
EventuallyFinished == []<>(e.phase = "Finished" \/ e.err # "" \/ e.phase = "NotStarted")
=============================================================================
