------------------------------- MODULE PPGDepth -------------------------------
(***************************************************************************)
(* C19 on the model: how many waves of signals does ONE driver call need,  *)
(* as a function of the size of the graph?  The code caps the number of    *)
(* waves per call with a runaway guard (1500 + 10 * jobs after the fix of  *)
(* finding D5; a constant 1500 and one recursion level per wave before).   *)
(* TLC runs the engine model PPGEngine on the cascade families of the      *)
(* property - chains, layers, fan-out, fan-in of every kind pattern, in    *)
(* each cascade shape (first build, up-to-date re-run, invalidation at     *)
(* either end, failure at the root, abort and resume) - for every size up  *)
(* to MaxN, one canonical schedule, one driver call per TLC step, and      *)
(* checks                                                                  *)
(*   - no internal error,                                                  *)
(*   - waves per call <= 6 * jobs + 8  (so the guard 1500 + 10 * jobs can  *)
(*     never be reached if the law continues, while the pre-fix constant   *)
(*     guard is crossed at about 500 jobs: with GuardBase = 0 and          *)
(*     GuardPerJob = 1 TLC shows the error branch reachable),              *)
(*   - the evaluation finishes, and a clean one executed exactly RefRun.   *)
(* Large instances (10^3 .. 10^4 jobs) are run against the real engine by  *)
(* harness `big` and must continue the affine law (PPGProps C19b).         *)
(***************************************************************************)
EXTENDS PPGWorld

CONSTANTS MaxN, Families, GuardBase, GuardPerJob

(* kind patterns repeated along the chain / the layers (as in harness `big`) *)
Patterns == {<<"O">>, <<"A", "O">>, <<"A", "E", "O">>, <<"O", "E", "E", "O">>, <<"E", "O">>,
             <<"E", "E", "O">>, <<"A", "A", "O">>, <<"A", "O", "E">>}

VARIABLES d   \* [fam, pat, n, shape, stage, c, r]   r = [e, w]
dvars == <<d>>

Shapes == {"rerun", "invroot", "invleaf", "failroot", "abort"}

KindAt(pat, i) == pat[(i % Len(pat)) + 1]

GraphOf(fam, pat, n) ==
  \* n = number of jobs; jobs JobName(0) .. JobName(n-1)
  LET J == {JobName(i) : i \in 0..(n - 1)} IN
  CASE fam = "chain" ->
         [kind |-> [j \in J |-> KindAt(pat, CHOOSE i \in 0..(n - 1) : JobName(i) = j)],
          edges |-> {<<JobName(i), JobName(i + 1)>> : i \in 0..(n - 2)}]
    [] fam = "erun" ->
         \* a run of jobs of kind pat[2] between a first job of kind pat[1] and a last of kind pat[3]
         [kind |-> [j \in J |-> LET i == CHOOSE k \in 0..(n - 1) : JobName(k) = j IN
                                IF i = 0 THEN pat[1] ELSE IF i = n - 1 THEN pat[Len(pat)]
                                ELSE pat[IF Len(pat) >= 2 THEN 2 ELSE 1]],
          edges |-> {<<JobName(i), JobName(i + 1)>> : i \in 0..(n - 2)}]
    [] fam = "fanout" ->
         [kind |-> [j \in J |-> LET i == CHOOSE k \in 0..(n - 1) : JobName(k) = j IN
                                IF i = 0 THEN pat[1] ELSE KindAt(Tail(pat) \o <<pat[Len(pat)]>>, i - 1)],
          edges |-> {<<JobName(0), JobName(i)>> : i \in 1..(n - 1)}]
    [] fam = "fanin" ->
         [kind |-> [j \in J |-> LET i == CHOOSE k \in 0..(n - 1) : JobName(k) = j IN
                                IF i = n - 1 THEN pat[Len(pat)] ELSE KindAt(pat, i)],
          edges |-> {<<JobName(i), JobName(n - 1)>> : i \in 0..(n - 2)}]
    [] fam = "layers" ->
         \* layers of width 2: job 2l, 2l+1 depend on both jobs of layer l-1
         [kind |-> [j \in J |-> KindAt(pat, (CHOOSE i \in 0..(n - 1) : JobName(i) = j) \div 2)],
          edges |-> {<<JobName(a), JobName(b)>> : a \in 0..(n - 1), b \in 0..(n - 1)} \cap
                    {x \in J \X J : \E a, b \in 0..(n - 1) :
                        x = <<JobName(a), JobName(b)>> /\ (b \div 2) = (a \div 2) + 1}]

Ctx(g, ver, evalno, hist0, file0, fail) ==
  LET m == MkCtx(g.kind, g.edges, "none", "exact", ver, evalno, hist0, file0, fail, {}, TRUE, "x", {})
  IN [f \in DOMAIN m \cup {"dbase", "dper"} |->
        IF f = "dbase" THEN GuardBase ELSE IF f = "dper" THEN GuardPerJob ELSE m[f]]

First(cc) == Full(cc, DStartup(cc, EInit(cc), W0(cc.file0), CanonOrd(cc)))

(* one canonical driver call *)
CanonStep(cc, r, abortAt) ==
  LET ee == r.e
      ww == r.w
      run == RunningJobs(cc, ee)
  IN IF ee.cleanup # {} THEN Full(cc, DCleanup(cc, ee, ww, Least(ee.cleanup)))
     ELSE IF Cardinality(ww.started) >= abortAt /\ ~ww.aborted /\ ee.phase = "Running"
          THEN IF run # {} THEN Full(cc, DFail(cc, ee, ww, Least(run), TRUE))
               ELSE Full(cc, DAbort(cc, ee, ww))
     ELSE IF run # {} THEN
            IF Least(run) \in ToSet(cc.fail) THEN Full(cc, DFail(cc, ee, ww, Least(run), FALSE))
            ELSE Full(cc, DSucceed(cc, ee, ww, Least(run)))
     ELSE IF ee.ready # {} THEN Full(cc, DStart(cc, ee, ww, Least(ee.ready)))
     ELSE r

Done(cc, r) == r.e.err # "" \/ (r.e.phase = "Finished" /\ r.e.cleanup = {})

DInit ==
  \E fam \in Families, pat \in Patterns, n \in 2..MaxN, shape \in Shapes :
    LET g == GraphOf(fam, pat, n)
        cc == Ctx(g, [j \in DOMAIN g.kind |-> 0], 1, <<>>, <<>>, {})
    IN d = [fam |-> fam, pat |-> pat, n |-> n, shape |-> shape, stage |-> 1, c |-> cc, r |-> First(cc)]

RootOf(cc) == LET R == {j \in Nodes(cc) : cc.kind[j] # "E"} IN IF R = {} THEN Least(Nodes(cc)) ELSE Least(R)
LastOut(cc) == LET O == {j \in Nodes(cc) : cc.kind[j] = "O"} IN
               IF O = {} THEN "" ELSE CHOOSE x \in O : \A y \in O : Least({x, y}) = y

DNext ==
  \/ /\ ~Done(d.c, d.r)
     /\ d' = [d EXCEPT !.r = CanonStep(d.c, d.r,
                                       IF d.shape = "abort" /\ d.stage = 1 THEN d.n \div 2 ELSE MaxN + 1)]
  \/ /\ Done(d.c, d.r) /\ d.r.e.err = "" /\ d.stage = 1
     /\ LET nh == NewHistory(d.c, d.r.e)
            cc == d.c
            root == RootOf(cc)
            g == [kind |-> cc.kind, edges |-> Edges(cc)]
            bumped == IF cc.kind[root] = "A" THEN [cc.ver EXCEPT ![root] = 1] ELSE cc.ver
            files == d.r.w.file
            c2 == CASE d.shape \in {"rerun", "abort"} -> Ctx(g, cc.ver, 2, nh.h, files, {})
                    [] d.shape = "invroot" ->
                         Ctx(g, bumped, 2, nh.h, IF cc.kind[root] = "O" THEN Del(files, root) ELSE files, {})
                    [] d.shape = "failroot" ->
                         Ctx(g, bumped, 2, nh.h, IF cc.kind[root] = "O" THEN Del(files, root) ELSE files,
                             {root})
                    [] d.shape = "invleaf" ->
                         Ctx(g, cc.ver, 2, nh.h,
                             IF LastOut(cc) # "" THEN Del(files, LastOut(cc)) ELSE files, {})
        IN /\ nh.res = "ok"
           /\ d' = [d EXCEPT !.stage = 2, !.c = c2, !.r = First(c2)]

DSpec == DInit /\ [][DNext]_dvars

NoLimitHit == d.r.e.err = ""
WavesLinear == d.r.e.maxdepth <= 6 * d.n + 8
FinishedOK ==
  Done(d.c, d.r) /\ d.r.e.err = "" =>
     LET s == Obs(d.c, d.r.e, d.r.w) IN
     /\ NewHistory(d.c, d.r.e).res = "ok"
     /\ s.ready = {} /\ s.running = {}
     /\ (Clean(s) => d.r.w.started = RefRun(d.c))
=============================================================================
