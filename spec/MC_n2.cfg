SPECIFICATION Spec
CONSTANTS
  NJobs = 2
  KindSets = {}
  EdgeSets = {}
  MaxEval = 3
  MaxFail = 1
  Edits = {"d", "b", "n", "e"}
  WithAbort = TRUE
  WithMisuse = TRUE
  WithFlaky = TRUE
  Cmps = {"exact", "nostamp"}
  UsesModes = {"all", "none"}
  AllOrders = TRUE
INVARIANTS Inv_C01 Inv_C02 Inv_C03 Inv_C04 Inv_C05 Inv_C06 Inv_C07 Inv_C08 Inv_C09 Inv_C10 Inv_C11 Inv_C12 Inv_C13 Inv_C14 Inv_C16 Inv_C17 Inv_C18 Inv_C20 Inv_H
CHECK_DEADLOCK FALSE
