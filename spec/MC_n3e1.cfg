SPECIFICATION Spec
CONSTANTS
  NJobs = 3
  KindSets = {}
  MaxEval = 1
  MaxFail = 1
  Edits = {"d", "b", "n", "e"}
  WithAbort = TRUE
  WithMisuse = TRUE
  Cmps = {"exact"}
  UsesModes = {"all"}
  AllOrders = TRUE
INVARIANTS InvNoError InvState InvStep InvMicro InvEnd InvRef InvDepth
CHECK_DEADLOCK FALSE
