------------------------------ MODULE PPGProps ------------------------------
(***************************************************************************)
(* The twenty properties of /verif/properties.jsonl as TLA+ predicates     *)
(* over an OBSERVABLE state signature: what a driver of the engine can see *)
(* (its reports) plus what the driver did (its own bookkeeping).  The same *)
(* operator text is evaluated                                              *)
(*   - by PPGEngine (model) on Obs(model state), and                       *)
(*   - by PPGTrace on states recorded from the real engine.                *)
(*                                                                         *)
(* Every clause yields "na" (antecedent false), "ok" or "bad".             *)
(*                                                                         *)
(* State signature s (sets are TLA+ sets, maps are functions):             *)
(*   dead fin phase qlen                                                   *)
(*   ready running cleanup failed upf      -- engine reports               *)
(*   outs [job -> value]                   -- get_job_output               *)
(*   jst  [job -> state string]            -- hook snapshot                *)
(*   started succ faildel changed cleaned  -- calls delivered by the driver*)
(*   offered coffered skipev               -- ever offered / ever skipped  *)
(*   rep [job -> value reported]  cons [job -> [up -> [w, e]]]             *)
(*   file temp aval [job -> content]       -- the materialised world       *)
(*   aborted aborting rab                                                  *)
(* cx = [c |-> evaluation context (PPGRef), N |-> jobs, leafy |-> set]     *)
(***************************************************************************)
EXTENDS PPGRef

V(ante, cons) == IF ~ante THEN "na" ELSE IF cons THEN "ok" ELSE "bad"

Derive(c) == [c |-> c, N |-> Nodes(c), leafy |-> LeafySet(c)]

Garbage == [GARBAGE |-> TRUE]

SuccessStates == {"A:FinishedSuccess", "O:FinishedSuccess",
                  "E:FinishedSuccessNotReadyForCleanup", "E:FinishedSuccessReadyForCleanup",
                  "E:FinishedSuccessCleanedUp", "E:FinishedSuccessSkipCleanup"}
SkippedStates == {"O:FinishedSkipped", "E:FinishedSkipped"}
FailedStates  == {"A:FinishedFailure", "O:FinishedFailure", "E:FinishedFailure"}
UpfStates     == {"A:FinishedUpstreamFailure", "O:FinishedUpstreamFailure",
                  "E:FinishedUpstreamFailure"}
AbortedStates == {"A:FinishedAborted", "O:FinishedAborted", "E:FinishedAborted"}
FinishedStates == SuccessStates \cup SkippedStates \cup FailedStates \cup UpfStates
                  \cup AbortedStates
ReadyStates   == {"A:ReadyToRun", "O:ReadyToRun", "E:ReadyToRun(Validated)",
                  "E:ReadyToRun(Invalidated)", "E:ReadyToRun(Unknown)"}
RunningStates == {"A:Running", "O:Running", "E:Running(Validated)",
                  "E:Running(Invalidated)", "E:Running(Unknown)"}

AStates == {"A:Undetermined", "A:ReadyToRun", "A:Running", "A:FinishedSuccess",
            "A:FinishedFailure", "A:FinishedUpstreamFailure", "A:FinishedAborted"}
OStates == {"O:NotReady(Unknown)", "O:NotReady(Validated)", "O:NotReady(Invalidated)",
            "O:ReadyToRun", "O:Running", "O:FinishedSuccess", "O:FinishedFailure",
            "O:FinishedUpstreamFailure", "O:FinishedSkipped", "O:FinishedAborted"}
EStates == {"E:NotReady(Unknown)", "E:NotReady(Validated)", "E:NotReady(Invalidated)",
            "E:ReadyButDelayed", "E:ReadyToRun(Unknown)", "E:ReadyToRun(Validated)",
            "E:ReadyToRun(Invalidated)", "E:Running(Unknown)", "E:Running(Validated)",
            "E:Running(Invalidated)", "E:FinishedSuccessNotReadyForCleanup",
            "E:FinishedSuccessReadyForCleanup", "E:FinishedSuccessCleanedUp",
            "E:FinishedSuccessSkipCleanup", "E:FinishedFailure", "E:FinishedUpstreamFailure",
            "E:FinishedSkipped", "E:FinishedAborted"}
KindOfState(st) == IF st \in AStates THEN "A" ELSE IF st \in OStates THEN "O"
                   ELSE IF st \in EStates THEN "E" ELSE "?"

FinJ(s, j) == s.jst[j] \in FinishedStates
SkippedJ(s, j) == s.jst[j] \in SkippedStates
Alive(s) == ~s.dead
Outputs(cx) == {j \in cx.N : cx.c.kind[j] = "O"}
Clean(s) == Alive(s) /\ s.fin /\ ~s.aborted /\ s.failed = {} /\ s.faildel = {}
            /\ s.changed = {}
Executed(s) == s.started
FailedAll(s) == s.faildel \cup s.changed \cup s.rab
AbortedSet(cx, s) == {j \in cx.N : s.jst[j] \in AbortedStates}

(* class of a final job state: what C14 calls the disposition *)
Disp(st) == CASE st \in SuccessStates -> "success"
              [] st \in SkippedStates -> "skipped"
              [] st \in FailedStates -> "failed"
              [] st \in UpfStates -> "upf"
              [] st \in AbortedStates -> "aborted"
              [] OTHER -> "unfinished"

SameRec(h0, h1, k) == (k \in DOMAIN h0 <=> k \in DOMAIN h1)
                      /\ (k \in DOMAIN h0 => h0[k] = h1[k])

(* history equal under the configured comparison *)
HistEq(c, h1, h2) ==
  /\ DOMAIN h1 = DOMAIN h2
  /\ \A k \in DOMAIN h1 :
        \/ h1[k] = h2[k]
        \/ (IsVal(h1[k]) /\ IsVal(h2[k]) /\ c.cmp = "nostamp" /\ h1[k].c = h2[k].c)
StripStamps(h) == [k \in DOMAIN h |-> IF IsVal(h[k]) THEN h[k].c ELSE h[k]]

(* the current output of every job, as a driver can know it: what the engine reports, or - for a
   job whose evaluation was cut short before it produced anything (a validated Ephemeral not yet
   settled, or still running, at an abort) - its recorded one *)
CurOuts(cx, s) ==
  LET have == DOMAIN s.outs \cup {u \in cx.N : OKey(u) \in DOMAIN cx.c.hist0}
  IN [u \in have |-> IF u \in DOMAIN s.outs THEN s.outs[u] ELSE cx.c.hist0[OKey(u)]]
UTDobs(cx, s, j) == UpToDate(cx.c, CurOuts(cx, s),
                             {x \in DOMAIN cx.c.file0 : cx.c.file0[x] # Garbage}, j)

(***************************************************************************)
(* C01  Incremental evaluation yields what a clean build would yield       *)
(***************************************************************************)
C01a(cx, s) ==
  V(Clean(s) /\ cx.c.det,
    LET cb == CleanBuild(cx.c)
    IN \A j \in Outputs(cx) : j \in DOMAIN s.file /\ s.file[j] = cb[j])

(***************************************************************************)
(* C02  Every input of a job is materialised when the job is offered       *)
(***************************************************************************)
(* An Output that was validly skipped (it is materialised and up to date) and is only later
   RELABELLED upstream-failed because one of its own upstreams failed afterwards did finish
   without failure: the relabelling is reporting, it takes nothing back (DESIGN.md section 7). *)
C02a(cx, s) ==
  V(Alive(s) /\ s.ready # {},
    \A j \in s.ready : \A u \in Ups(cx.c, j) :
       /\ u \notin s.failed \cup (s.upf \ s.skipev)
       /\ \/ s.jst[u] \in SuccessStates \cup SkippedStates
          \/ (u \in s.skipev /\ s.jst[u] = "O:FinishedUpstreamFailure"))
C02b(cx, s) ==
  V(Alive(s) /\ s.ready # {},
    \A j \in s.ready : \A u \in Ups(cx.c, j) :
       cx.c.kind[u] = "O" => u \in DOMAIN s.file /\ s.file[u] # Garbage)
C02c(cx, s) ==
  V(Alive(s) /\ s.ready # {},
    \A j \in s.ready : \A u \in Ups(cx.c, j) :
       cx.c.kind[u] = "E" => u \in s.succ /\ u \notin s.coffered /\ u \in DOMAIN s.temp)
C02d(cx, s) ==
  V(Alive(s) /\ s.ready # {},
    \A j \in s.ready : \A u \in Ups(cx.c, j) : cx.c.kind[u] = "A" => u \in s.succ)
C02e(cx, s) ==
  V(Alive(s) /\ s.ready # {},
    \A j \in s.ready : \A u \in Ups(cx.c, j) : u \in DOMAIN s.outs)

(***************************************************************************)
(* C03  A job is never skipped while what it was built from has changed    *)
(***************************************************************************)
C03a(cx, s) ==
  V(Alive(s) /\ s.fin,
    \A j \in cx.N \ (s.started \cup s.failed \cup s.upf \cup AbortedSet(cx, s) \cup cx.leafy) :
       /\ UTDobs(cx, s, j)
       /\ (cx.c.kind[j] = "O" => j \in DOMAIN s.file /\ s.file[j] # Garbage))

(* The same, judged on GROUND TRUTH kept by the world across the whole chain of evaluations
   instead of on the engine's own records (which a defect may have forged): built[j][u] is the
   output of u that j's last successful execution really consumed, dirty the jobs a failed or
   interrupted attempt has touched since. *)
C03b(cx, s) ==
  V(Alive(s) /\ s.fin /\ cx.c.truth /\ cx.c.conv = "ids",
    \A j \in cx.N \ (s.started \cup s.failed \cup s.upf \cup AbortedSet(cx, s) \cup cx.leafy) :
       /\ j \in DOMAIN cx.c.built
       /\ j \notin ToSet(cx.c.dirty)
       /\ DOMAIN cx.c.built[j] = Ups(cx.c, j)
       /\ \A u \in Ups(cx.c, j) :
             u \in DOMAIN CurOuts(cx, s) /\ ~Altered(cx.c, j, cx.c.built[j][u], CurOuts(cx, s)[u]))

(***************************************************************************)
(* C04  Only necessary work is executed                                    *)
(***************************************************************************)
C04a(cx, s) == V(Alive(s) /\ s.fin, s.started \cap cx.leafy = {})
C04b(cx, s) ==
  V(Clean(s),
    s.started = {j \in cx.N \ cx.leafy :
                    \/ cx.c.kind[j] = "A"
                    \/ ~UTDobs(cx, s, j)
                    \/ cx.c.kind[j] = "E" /\ \E d \in Downs(cx.c, j) : d \in s.started})
C04c(cx, s, hasTwin, twinS) ==
  V(Alive(s) /\ s.fin /\ ~Clean(s) /\ hasTwin, s.started \subseteq twinS.started)

(***************************************************************************)
(* C05  Evaluations always make progress and terminate                     *)
(***************************************************************************)
C05a(cx, s) == V(Alive(s) /\ s.phase # "NotStarted" /\ ~s.fin, s.ready \cup s.running # {})
C05b(cx, s) == V(Alive(s) /\ s.fin, s.ready = {} /\ s.running = {})
C05c(cx, pre, post, call) == V(call.name = "start", call.job \notin pre.started)

(***************************************************************************)
(* C06  Legal use never produces a panic or an internal error              *)
(***************************************************************************)
C06a(call, res, mis) == V(~mis, res \in {"ok", "changed"})
C06b(cx, call, res) ==
  V(res = "changed", call.name = "success" /\ cx.c.kind[call.job] = "E")
C06c(s, nh) == V(s.fin /\ ~s.aborted /\ Alive(s), nh = "ok")

(***************************************************************************)
(* C07  Failures are isolated                                              *)
(***************************************************************************)
C07a(cx, s) ==
  V(Alive(s) /\ s.ready # {} /\ (s.failed \cup s.upf) # {},
    /\ \A j \in s.ready : Ups(cx.c, j) \cap (s.failed \cup (s.upf \ s.skipev)) = {}
    /\ s.ready \cap Blocked(cx.c, s.failed, s.started, s.skipev) = {})
(* At the end: every job that was never started and depends on a failed job - directly or through
   other never-started jobs, validly skipped ones included - is reported upstream-failed. *)
C07b(cx, s) ==
  V(Alive(s) /\ s.fin /\ ~s.aborted /\ s.failed # {},
    \A j \in Blocked(cx.c, s.failed, s.started, {}) \ cx.leafy :
       \* a job that had been validly skipped before the failure reached it was settled, not
       \* prevented from running: it may keep that label (the engine relabels Outputs)
       j \in s.upf \/ j \in s.skipev)
(* No such job is NEWLY offered at or after the failure.  (An offer made before the failure - to a
   dependant of an Output that had been validly skipped and is only relabelled by the failure -
   cannot be taken back: the driver may be starting that job; C07a tolerates exactly those.) *)
C07f(cx, pre, post) ==
  V(Alive(post) /\ post.failed # {} /\ post.ready \ pre.ready # {},
    (post.ready \ pre.ready) \cap Blocked(cx.c, post.failed, post.started, {}) = {})
C07c(cx, s) == V(Alive(s) /\ s.upf # {}, s.upf \cap s.started = {})
C07d(cx, s) ==
  V(Alive(s) /\ s.upf # {},
    \A j \in s.upf : \E u \in Ups(cx.c, j) : u \in s.failed \cup s.upf)
C07e(cx, s, hasTwin, twinS) ==
  V(Alive(s) /\ s.fin /\ ~s.aborted /\ s.failed # {} /\ hasTwin,
    LET fa == FailedAncestor(cx.c, s.failed)
    IN \A j \in cx.N \ fa :
          cx.c.kind[j] # "E" => (j \in s.started <=> j \in twinS.started))

(***************************************************************************)
(* C08  Failed work is never recorded as done                              *)
(***************************************************************************)
C08a(cx, s, nh, h1) ==
  V(s.fin /\ Alive(s) /\ nh = "ok" /\ FailedAll(s) # {},
    \A j \in FailedAll(s) : OKey(j) \notin DOMAIN h1 /\ NKey(j) \notin DOMAIN h1)
C08b(cx, s, nh, h1) ==
  V(s.fin /\ Alive(s) /\ nh = "ok" /\ FailedAll(s) # {},
    \A j \in FailedAll(s) : \A u \in Ups(cx.c, j) : SameRec(cx.c.hist0, h1, EKey(u, j)))
(* the next evaluation executes it again (resume context; prevS = end state of the interrupted one) *)
C08c(cx, s, isResume, prevS) ==
  V(isResume /\ Clean(s),
    \A j \in (FailedAll(prevS) \cap cx.N) \ cx.leafy : j \in s.started)

(***************************************************************************)
(* C09  Interrupted evaluations resume without loss and without excess     *)
(***************************************************************************)
NeverStartedInterrupted(cx, s) ==
  {j \in cx.N \ s.started : s.jst[j] \in UpfStates \cup AbortedStates} \ s.skipev
C09a(cx, s, nh, h1) ==
  V(s.fin /\ Alive(s) /\ nh = "ok" /\ NeverStartedInterrupted(cx, s) # {},
    \A j \in NeverStartedInterrupted(cx, s) :
       /\ SameRec(cx.c.hist0, h1, OKey(j))
       /\ SameRec(cx.c.hist0, h1, NKey(j))
       /\ \A u \in Ups(cx.c, j) : SameRec(cx.c.hist0, h1, EKey(u, j)))
C09b(cx, s, isResume, hasTwin, twinS) ==
  V(isResume /\ hasTwin /\ Alive(s) /\ s.fin, s.started \subseteq twinS.started)
C09c(cx, s, isResume) ==
  V(isResume /\ Alive(s) /\ s.fin, s.started \cap ToSet(cx.c.prevsucc) = {})
C09d(cx, s, nh, h1, isResume, hasTwin, twinS, twinH) ==
  V(isResume /\ hasTwin /\ Clean(s) /\ nh = "ok",
    /\ \A j \in Outputs(cx) : j \in DOMAIN s.file /\ j \in DOMAIN twinS.file
                              /\ s.file[j] = twinS.file[j]
    /\ HistEq(cx.c, StripStamps(h1), StripStamps(twinH)))

(***************************************************************************)
(* C10  Aborting is safe at every point                                    *)
(***************************************************************************)
C10a(call, res) == V(call.name = "abort", res = "ok")
C10b(call, res, post) ==
  V(call.name = "abort" /\ res = "ok", post.fin /\ post.ready = {} /\ post.running = {})
C10c(s, nh) == V(s.fin /\ s.aborted /\ Alive(s), nh = "ok")

(***************************************************************************)
(* C11  Successful work is recorded faithfully                             *)
(***************************************************************************)
SuccOK(s) == s.succ \ s.failed
C11a(cx, s, nh, h1) ==
  V(s.fin /\ Alive(s) /\ nh = "ok" /\ SuccOK(s) # {},
    \A j \in SuccOK(s) : OKey(j) \in DOMAIN h1 /\ h1[OKey(j)] = s.rep[j])
C11b(cx, s, nh, h1) ==
  V(s.fin /\ Alive(s) /\ nh = "ok" /\ SuccOK(s) # {},
    \A j \in SuccOK(s) : NKey(j) \in DOMAIN h1 /\ ToSet(h1[NKey(j)].names) = InputNames(cx.c, j))
C11c(cx, s, nh, h1) ==
  V(s.fin /\ Alive(s) /\ nh = "ok" /\ SuccOK(s) # {},
    \A j \in SuccOK(s) : \A u \in Ups(cx.c, j) :
       /\ EKey(u, j) \in DOMAIN h1
       /\ "e" \in DOMAIN s.cons[j][u]
       /\ h1[EKey(u, j)] = s.cons[j][u].e)
ValidlySkipped(cx, s) == {j \in cx.N \ cx.leafy : SkippedJ(s, j)}
C11d(cx, s, nh, h1) ==
  V(s.fin /\ Alive(s) /\ nh = "ok" /\ ValidlySkipped(cx, s) # {},
    \A j \in ValidlySkipped(cx, s) :
       /\ OKey(j) \in DOMAIN h1 /\ OKey(j) \in DOMAIN cx.c.hist0
       /\ h1[OKey(j)] = cx.c.hist0[OKey(j)]
       /\ SameRec(cx.c.hist0, h1, NKey(j)))
C11e(cx, s, nh, h1) ==
  V(s.fin /\ Alive(s) /\ nh = "ok" /\ ValidlySkipped(cx, s) # {},
    \A j \in ValidlySkipped(cx, s) : \A u \in Ups(cx.c, j) :
       u \in DOMAIN CurOuts(cx, s) =>
          /\ EKey(u, j) \in DOMAIN h1
          /\ ~Altered(cx.c, j, h1[EKey(u, j)], CurOuts(cx, s)[u]))

(***************************************************************************)
(* C12  Re-evaluating an unchanged project does nothing                    *)
(***************************************************************************)
C12a(cx, s, unchanged) == V(unchanged /\ Clean(s), s.started \cap Outputs(cx) = {})
C12b(cx, s, unchanged) ==
  V(unchanged /\ Clean(s),
    \A j \in s.started : cx.c.kind[j] = "A" \/ FeedsAlways(cx.c, j))
C12c(cx, s, nh, h1, unchanged) ==
  V(unchanged /\ Clean(s) /\ nh = "ok", HistEq(cx.c, h1, cx.c.hist0))
(* "does nothing" includes: nothing fails.  The driver injects no fault into such an evaluation, so a
   job reported failed or upstream-failed can only come from the engine itself (a spurious
   changed-output error, an internal error). *)
C12d(cx, s, nh, unchanged) ==
  V(unchanged /\ Alive(s) /\ s.fin /\ ~s.aborted /\ ~s.aborting /\ s.faildel = {},
    s.failed = {} /\ s.changed = {} /\ s.upf = {} /\ nh = "ok")

(***************************************************************************)
(* C13  Ephemeral cleanup is safe, happens once, and is not forgotten      *)
(***************************************************************************)
(* while offered: an executed Ephemeral all of whose direct downstreams have finished *)
C13a(cx, s) ==
  V(Alive(s) /\ s.cleanup # {},
    \A j \in s.cleanup :
       /\ cx.c.kind[j] = "E" /\ j \in s.succ
       /\ \A d \in Downs(cx.c, j) : FinJ(s, d))
(* "only if AT THAT MOMENT none of them has failed, been upstream-failed or aborted": judged when
   the offer is made.  (A downstream Output that was validly skipped then may be relabelled
   upstream-failed later while the offer stands - "it stays offered until acknowledged".) *)
C13f(cx, pre, post) ==
  V(Alive(post) /\ post.cleanup \ pre.cleanup # {},
    \A j \in post.cleanup \ pre.cleanup :
       \A d \in Downs(cx.c, j) : post.jst[d] \in SuccessStates \cup SkippedStates)
C13b(cx, s) == V(Alive(s) /\ s.cleaned # {}, s.cleaned \cap s.cleanup = {})
C13c(pre, post, call, res) ==
  V(Alive(post) /\ pre.cleanup # {} /\ res = "ok",
    \A j \in pre.cleanup : (call.name = "cleanup" /\ call.job = j) \/ j \in post.cleanup)
C13d(pre, post) ==
  V(Alive(post) /\ post.cleanup # {},
    \A j \in post.cleanup \ pre.cleanup : j \notin pre.coffered)
C13e(cx, s) ==
  V(Alive(s) /\ s.fin /\ ~s.aborted,
    \A j \in {x \in s.succ : cx.c.kind[x] = "E"} :
       (\A d \in Downs(cx.c, j) : d \in SuccOK(s) \/ SkippedJ(s, d)) => j \in s.coffered)

(***************************************************************************)
(* C14  The outcome does not depend on scheduling or declaration order     *)
(***************************************************************************)
Outcome(cx, s, nh, h1) ==
  [disp |-> [j \in cx.N |-> Disp(s.jst[j])], nh |-> nh, hist |-> h1,
   started |-> s.started]
C14a(cx, s, nh, h1, hasOther, otherS, otherNh, otherH) ==
  V(Clean(s) /\ hasOther, Outcome(cx, s, nh, h1) = Outcome(cx, otherS, otherNh, otherH))

(***************************************************************************)
(* C15  Whether something changed is decided only by the configured        *)
(*      comparison: the run with stamps (comparison ignores them) must be  *)
(*      the run without stamps, modulo stamps.                             *)
(***************************************************************************)
OutcomeNoStamp(cx, s, nh, h1) ==
  [disp |-> [j \in cx.N |-> Disp(s.jst[j])], nh |-> nh, hist |-> StripStamps(h1),
   started |-> s.started, failed |-> s.failed, upf |-> s.upf, dead |-> s.dead]
(* C15a is a coverage statistic, not a verdict: an end of the stamped run for which the stamp-free
   run has no end with the same deliveries from the same world (modulo stamps).  The first
   divergence between the two runs always has a partner (same start world), so C15b decides. *)
C15a(isStampRun, partners) == V(isStampRun /\ partners # {}, TRUE)
(* partners: set of [s, nh, h1] of the exact-comparison run with the same deliveries *)
C15b(cx, s, nh, h1, isStampRun, partners) ==
  V(isStampRun /\ partners # {},
    \E p \in partners : OutcomeNoStamp(cx, s, nh, h1) = OutcomeNoStamp(cx, p.s, p.nh, p.h1))

(***************************************************************************)
(* C16  A validated Ephemeral job that changes its output is detected      *)
(***************************************************************************)
ValidatedE(cx, pre, j) == UpToDate(cx.c, pre.outs, {}, j)
C16a(cx, pre, post, call, res) ==
  V(call.name = "success" /\ cx.c.kind[call.job] = "E" /\ res \in {"ok", "changed"}
       /\ ValidatedE(cx, pre, call.job)
       /\ Altered(cx.c, "", cx.c.hist0[OKey(call.job)], post.rep[call.job]),
    res = "changed" /\ call.job \in post.failed)
C16b(cx, pre, post, call, res) ==
  V(res = "changed",
    /\ call.name = "success" /\ cx.c.kind[call.job] = "E"
    /\ ValidatedE(cx, pre, call.job)
    /\ Altered(cx.c, "", cx.c.hist0[OKey(call.job)], post.rep[call.job]))
C16c(cx, s, nh, h1) ==
  V(s.fin /\ Alive(s) /\ nh = "ok" /\ s.changed # {},
    \A j \in s.changed :
       /\ OKey(j) \notin DOMAIN h1 /\ NKey(j) \notin DOMAIN h1
       /\ j \in s.failed
       /\ (~s.aborted => \A d \in (Downs(cx.c, j) \ s.started) \ cx.leafy : d \in s.upf))

(***************************************************************************)
(* C17  Jobs move through their lifecycle once; reports stay consistent    *)
(***************************************************************************)
C17a(cx, s) ==
  V(Alive(s),
    /\ s.ready \cap s.running = {}
    /\ \A j \in s.ready \cup s.running : ~FinJ(s, j))
C17b(cx, s) ==
  V(Alive(s),
    s.running = IF s.aborted THEN {} ELSE s.started \ (s.succ \cup s.faildel \cup s.changed))
C17c(cx, s) == V(Alive(s), s.failed = s.faildel \cup s.changed /\ s.estarted = s.started)
C17d(cx, s) == V(Alive(s), s.upf \cap s.started = {})
C17e(cx, s) ==
  V(Alive(s), s.cleanup \subseteq {j \in s.succ : cx.c.kind[j] = "E"} \ s.cleaned)
C17f(cx, s) ==
  V(Alive(s) /\ s.phase # "NotStarted", s.fin <=> \A j \in cx.N : FinJ(s, j))
C17g(cx, s) ==
  V(Alive(s),
    /\ s.ready = {j \in cx.N : s.jst[j] \in ReadyStates}
    /\ s.running = {j \in cx.N : s.jst[j] \in RunningStates}
    /\ s.cleanup = {j \in cx.N : s.jst[j] = "E:FinishedSuccessReadyForCleanup"}
    /\ s.failed = {j \in cx.N : s.jst[j] \in FailedStates}
    /\ s.upf = {j \in cx.N : s.jst[j] \in UpfStates})
C17h(cx, s) ==
  V(Alive(s) /\ s.succ # {},
    \A j \in s.succ : /\ j \in DOMAIN s.outs /\ s.outs[j] = s.rep[j]
                      /\ s.jst[j] \in SuccessStates)
C17i(pre, post, call, res) ==
  V(Alive(post) /\ res = "ok",
    /\ (call.name = "start" => call.job \in pre.ready)
    /\ \A j \in post.ready \ pre.ready : j \notin pre.offered)
C17j(cx, pre, post) ==
  V(Alive(post),
    \A j \in cx.N :
       /\ (FinJ(pre, j) => FinJ(post, j))
       /\ (j \in pre.succ => j \notin post.failed \cup post.upf /\ post.jst[j] \in SuccessStates)
       /\ KindOfState(post.jst[j]) = cx.c.kind[j])
C17l(pre, post, call, res) ==
  V(Alive(post) /\ res = "ok" /\ pre.ready # {},
    \A j \in pre.ready \ post.ready :
       (call.name = "start" /\ call.job = j) \/ call.name = "abort")
(* micro steps: the hook's per-job transition log inside one call *)
StepOK(cx, st) ==
  \* st = <<"st", job, from, to>>
  LET from == st[3] to == st[4] IN
  /\ (to # "Pruned" => KindOfState(from) = KindOfState(to) /\ KindOfState(to) # "?")
  /\ (from \in FinishedStates /\ to # "Pruned" =>
         to \in FinishedStates)
  /\ (from \in SuccessStates => to \in SuccessStates)
  /\ (from \in FailedStates => to \in FailedStates)
RECURSIVE ChainOK(_, _, _)
ChainOK(steps, i, cur) ==
  \* cur: [job -> state] tracked through the log
  IF i > Len(steps) THEN cur
  ELSE IF steps[i][1] # "st" THEN ChainOK(steps, i + 1, cur)
  ELSE LET j == steps[i][2] IN
       IF j \notin DOMAIN cur \/ cur[j] # steps[i][3] THEN [bad |-> i]
       ELSE ChainOK(steps, i + 1,
                    [cur EXCEPT ![j] = IF steps[i][4] = "Pruned" THEN "E:FinishedSkipped"
                                       ELSE steps[i][4]])
C17k(cx, preJst, post, steps, res) ==
  V(Alive(post) /\ Len(steps) > 0,
    /\ \A i \in DOMAIN steps : steps[i][1] = "st" => StepOK(cx, steps[i])
    /\ ChainOK(steps, 1, preJst) = post.jst)

(***************************************************************************)
(* C18  History of absent jobs is kept; of removed dependencies dropped    *)
(* ids: all job ids occurring in the graph or in a history key;            *)
(* idnames: [id -> set of output names]                                    *)
(***************************************************************************)
KeysOfIds(ids) == {OKey(a) : a \in ids} \cup {NKey(a) : a \in ids}
                  \cup {EKey(a, b) : a \in ids, b \in ids}
Superseded(cx, idnames, x) ==
  x \notin cx.N /\ \E j \in cx.N : idnames[x] \cap NamesOf(cx.c, j) # {}
C18a(cx, h1, ids) ==
  V(TRUE, (DOMAIN cx.c.hist0 \cup DOMAIN h1) \subseteq KeysOfIds(ids))
(* The records BELONGING to a job are its own output record, its input-name record and the
   per-dependency records of what IT consumed (u!!!job) - cf. C08 "the per-dependency records of
   what it last consumed".  A record of what a still valid job b consumed from a superseded
   producer belongs to b, not to the producer. *)
C18b(cx, s, nh, h1, ids, idnames) ==
  V(nh = "ok" /\ Alive(s),
    LET absent == {x \in ids \ cx.N : ~Superseded(cx, idnames, x)}
        sup == {x \in ids : Superseded(cx, idnames, x)}
        keep == ({OKey(a) : a \in absent} \cup {NKey(a) : a \in absent}
                 \cup {EKey(a, b) : a \in absent, b \in ids \ sup}
                 \cup {EKey(a, b) : a \in ids, b \in absent})
                \cap DOMAIN cx.c.hist0
    IN \A k \in keep : k \in DOMAIN h1 /\ h1[k] = cx.c.hist0[k])
C18c(cx, s, nh, h1, ids, idnames) ==
  V(nh = "ok" /\ Alive(s) /\ \E x \in ids : Superseded(cx, idnames, x),
    LET sup == {x \in ids : Superseded(cx, idnames, x)}
        gone == {OKey(a) : a \in sup} \cup {NKey(a) : a \in sup}
                \cup {EKey(a, b) : a \in ids, b \in sup}
                \* and what an up-to-date present job consumed is recorded under present names only
                \cup {EKey(a, b) : a \in sup, b \in {x \in cx.N : x \in DOMAIN s.outs}}
    IN gone \cap DOMAIN h1 = {})
C18d(cx, s, nh, h1) ==
  V(nh = "ok" /\ Alive(s),
    \A a \in cx.N : \A b \in cx.N :
       EKey(a, b) \in DOMAIN h1 => <<a, b>> \in Edges(cx.c))
C18e(cx, s, nh, h1) ==
  V(nh = "ok" /\ Alive(s),
    DOMAIN h1 \subseteq DOMAIN cx.c.hist0 \cup {OKey(a) : a \in cx.N}
                       \cup {NKey(a) : a \in cx.N}
                       \cup {EKey(e[1], e[2]) : e \in Edges(cx.c)})

(***************************************************************************)
(* C19  Behaviour does not depend on the size or depth of the graph        *)
(* b = summary of one evaluation of a large instance (harness `big`): one  *)
(* seeded schedule through the public API, counts per disposition.         *)
(* b1, b2 = the summaries of the same family / kind pattern / cascade      *)
(* shape at the two smallest sizes, whose complete traces are validated    *)
(* against every other property's clauses; larger instances must continue  *)
(* the same affine law in the number of jobs ("evaluate like small         *)
(* graphs"), and no instance may hit an internal limit.                    *)
(***************************************************************************)
C19a(b) ==
  V(TRUE, /\ ~b.dead /\ b.bad = <<>> /\ ~b.stalled /\ b.fin /\ b.nh = "ok"
          /\ b.ready = 0 /\ b.running = 0)
C19Fields == {"started", "startedA", "startedO", "startedE", "succeeded", "failed", "upf",
              "outs", "histkeys"}
C19b(b, b1, b2) ==
  V(b.pos >= 3 /\ b.shape \notin {"abort", "resume"} /\ ~b.dead /\ ~b1.dead /\ ~b2.dead,
    \A f \in C19Fields :
       (b[f] - b1[f]) * (b2.jobs - b1.jobs) = (b2[f] - b1[f]) * (b.jobs - b1.jobs))
(* the resume of an aborted evaluation finishes the build *)
C19c(b) == V(b.shape = "resume" /\ ~b.dead, b.failed = 0 /\ b.upf = 0)
(* waves per call stay below the runaway guard (1500 + 10 * jobs): at most 6 per job (runs of
   consecutive Ephemeral jobs), about 3 in chains of Output jobs *)
C19d(b) == V(~b.dead, b.maxdepth <= 7 * b.jobs + 16)

(***************************************************************************)
(* C20  Protocol misuse is rejected without side effects                   *)
(***************************************************************************)
C20a(res, mis) == V(mis, res = "api")
C20b(mis, same) == V(mis, same)

(***************************************************************************)
(* H    Honesty of the driver (harness or model environment): what a job   *)
(*      reported is its behaviour applied to what it read; bookkeeping     *)
(*      follows the calls.  A failure here is a tool error, never a        *)
(*      VIOLATION.                                                         *)
(***************************************************************************)
ReadOf(cx, s, j) ==
  [x \in ToSet(cx.c.uses[j]) |->
     LET u == Producer(cx.c, x) IN
     IF u \in DOMAIN s.cons[j] /\ x \in DOMAIN s.cons[j][u].w THEN s.cons[j][u].w[x]
     ELSE [MISSING |-> TRUE]]
H01(cx, s) ==
  V(Alive(s) /\ (s.succ \cup s.changed) # {},
    \A j \in s.succ \cup s.changed :
       /\ s.rep[j].c = Beh(cx.c, j, ReadOf(cx, s, j),
                           IF j \in ToSet(cx.c.flaky) THEN cx.c.evalno ELSE 0)
       /\ (cx.c.cmp = "nostamp" => s.rep[j].s = cx.c.evalno))
(* every end of a stamped, fault-free, uninterrupted evaluation has partners in the stamp-free run
   of the same world: otherwise the differential of C15 would be silently vacuous *)
H03(cx, s, isStampRun, partners) ==
  V(isStampRun /\ cx.c.fail = <<>> /\ cx.c.flaky = <<>> /\ ~s.aborted /\ ~s.aborting /\ Alive(s),
    partners # {})
H02(cx, pre, post, call, res, mis) ==
  V(Alive(post) /\ ~mis,
    /\ post.offered = pre.offered \cup post.ready
    /\ post.coffered = pre.coffered \cup post.cleanup
    /\ post.started = pre.started \cup (IF call.name = "start" /\ res = "ok" THEN {call.job} ELSE {})
    /\ post.succ = pre.succ \cup (IF call.name = "success" /\ res = "ok" THEN {call.job} ELSE {})
    /\ post.changed = pre.changed \cup (IF call.name = "success" /\ res = "changed" THEN {call.job} ELSE {})
    /\ post.faildel = pre.faildel \cup (IF call.name \in {"fail", "failx"} /\ res = "ok" THEN {call.job} ELSE {})
    /\ post.cleaned = pre.cleaned \cup (IF call.name = "cleanup" /\ res = "ok" THEN {call.job} ELSE {})
    /\ (call.name = "start" /\ res = "ok" /\ cx.c.kind[call.job] = "O"
          => post.file[call.job] = Garbage)
    /\ (call.name = "success" /\ cx.c.kind[call.job] = "O"
          => post.file[call.job] = post.rep[call.job].c)
    /\ (call.name = "success" /\ cx.c.kind[call.job] = "E"
          => post.temp[call.job] = post.rep[call.job].c)
    /\ (call.name = "cleanup" /\ res = "ok" => call.job \notin DOMAIN post.temp)
    /\ pre.skipev \subseteq post.skipev)
=============================================================================
