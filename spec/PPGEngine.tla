------------------------------ MODULE PPGEngine ------------------------------
(***************************************************************************)
(* Implementation-shaped model of pypipegraph2's evaluation engine         *)
(* (src/engine.rs, PPGEvaluator).  One operator per critical section of    *)
(* the code; the engine state is ONE record `e`, every driver call and     *)
(* every handled signal is a function  e |-> e'.  Written as functions     *)
(* (not as actions over variables) so that the same text is used           *)
(*   - by PPGEngineMC: TLC explores  e' = HandleOne(c, e) / Call(c, e, ..) *)
(*     as ordinary next-state steps (one TLC state per handled signal),    *)
(*   - by PPGTrace (strict mode): for every transition recorded from the   *)
(*     real engine, Quiesce(Call(E(pre))) must equal the recorded post     *)
(*     state, signal by signal.                                            *)
(*                                                                         *)
(* c  : evaluation context (see PPGRef) plus                               *)
(*      ids, idnames : every job id occurring in graph or history, with    *)
(*                     its output names (strings cannot be split in TLA+)  *)
(*      sorted       : all ids and output names in lexicographic order     *)
(* e  : engine state                                                       *)
(*      phase   "NotStarted" | "Running" | "Finished"   (already_started)  *)
(*      jst     [job -> state]          jobs[i].state, as "K:State"        *)
(*      hout    partial [job -> value]  jobs[i].history_output             *)
(*      ereq, einv [edge key -> "Unknown"|"Yes"|"No"]   EdgeInfo           *)
(*      ready, cleanup                  jobs_ready_to_run / _for_cleanup   *)
(*      sigq    self.signals            newq  local new_signals            *)
(*      ignore  ignore_consider_signals (per wave)                         *)
(*      cgen    {j : last_considered_in_gen[j] = gen}  -- exact abstraction*)
(*              of the generation counter: the code only ever tests        *)
(*              gen > last[j], sets last[j] := gen, and increments gen.    *)
(*      started was_started             depth  waves in the current call   *)
(*      maxdepth largest depth of any call so far (C19)                    *)
(*      ord     iteration orders of the pruned dag (see Startup)           *)
(*      err     "" or the first InternalError / panic site reached         *)
(*      log     handled signals and state changes of the current call      *)
(***************************************************************************)
EXTENDS PPGProps

RECURSIVE FoldL(_, _, _)
FoldL(Op(_, _), acc, seq) ==
  IF seq = <<>> THEN acc ELSE FoldL(Op, Op(acc, Head(seq)), Tail(seq))

Put(f, k, v) == [x \in DOMAIN f \cup {k} |-> IF x = k THEN v ELSE f[x]]
Del(f, k) == [x \in DOMAIN f \ {k} |-> f[x]]
Restrict(f, S) == [x \in DOMAIN f \cap S |-> f[x]]

Err(e, m) == IF e.err # "" THEN e ELSE [e EXCEPT !.err = m]

DepthLimit(c) == (IF "dbase" \in DOMAIN c THEN c.dbase ELSE 1500)
                 + (IF "dper" \in DOMAIN c THEN c.dper ELSE 10) * Len(c.nodes)

UpsOf(e, j) == e.ord.up[j]
DownsOf(e, j) == e.ord.dn[j]
IsFin(e, j) == e.jst[j] \in FinishedStates
IsFailedSt(st) == st \in FailedStates \cup UpfStates \cup AbortedStates
K(c, j, s) == c.kind[j] \o ":" \o s

(* set_node_state!: every state write advances the generation *)
SetSt(e, j, new) ==
  [e EXCEPT !.jst[j] = new, !.cgen = {}, !.log = Append(@, <<"st", j, e.jst[j], new>>)]

Push(e, k, j) == [e EXCEPT !.newq = Append(@, <<k, j>>)]

(* reconsider_job!: refused when ANY signal for that node is already in new_signals, or the node
   was already (re)considered in the current generation *)
Reconsider(e, j) ==
  IF \E i \in DOMAIN e.newq : e.newq[i][2] = j THEN e
  ELSE IF j \in e.cgen THEN e
  ELSE [e EXCEPT !.newq = Append(@, <<"ConsiderJob", j>>), !.cgen = @ \cup {j}]

(* remove_consider_signals + ignore_consider_signals.insert *)
Block(e, j) ==
  [e EXCEPT !.newq = SelectSeq(@, LAMBDA s : ~(s[1] = "ConsiderJob" /\ s[2] = j)),
            !.ignore = @ \cup {j}]

AllUpsDone(e, j) == \A i \in DOMAIN UpsOf(e, j) : IsFin(e, UpsOf(e, j)[i])

RECURSIVE AllEph(_, _, _)
AllEph(c, e, j) ==
  c.kind[j] = "E" /\ \A i \in DOMAIN DownsOf(e, j) : AllEph(c, e, DownsOf(e, j)[i])

SetUpEdges(e, j, w) ==
  LET ks == {EKey(UpsOf(e, j)[i], j) : i \in DOMAIN UpsOf(e, j)}
  IN [e EXCEPT !.ereq = [k \in DOMAIN @ |-> IF k \in ks THEN w ELSE @[k]]]

RECURSIVE PropReq(_, _, _)
PropReq(c, e, j) ==
  FoldL(LAMBDA acc, u :
          LET e1 == [acc EXCEPT !.ereq[EKey(u, j)] = "Yes"]
          IN IF c.kind[u] = "E" THEN PropReq(c, e1, u) ELSE e1,
        e, UpsOf(e, j))

ReconsiderEphUps(e, j) ==
  FoldL(LAMBDA acc, u :
          IF acc.jst[u] \in {"E:ReadyButDelayed", "E:NotReady(Validated)"}
          THEN Reconsider(acc, u) ELSE acc,
        e, UpsOf(e, j))

RECURSIVE ReconsiderDelayedUps(_, _)
ReconsiderDelayedUps(e, j) ==
  FoldL(LAMBDA acc, u :
          IF acc.jst[u] \in {"E:NotReady(Unknown)", "E:NotReady(Validated)",
                             "E:NotReady(Invalidated)"}
          THEN ReconsiderDelayedUps(acc, u)
          ELSE IF acc.jst[u] = "E:ReadyButDelayed" THEN Reconsider(acc, u) ELSE acc,
        e, UpsOf(e, j))

ConsiderDowns(e, j) == FoldL(LAMBDA acc, d : Reconsider(acc, d), e, DownsOf(e, j))

(* edge_invalidated: [e, b] *)
EdgeInv(c, e, u, d) ==
  LET k == EKey(u, d) IN
  IF e.einv[k] = "Yes" THEN [e |-> e, b |-> TRUE]
  ELSE IF e.einv[k] = "No" THEN [e |-> e, b |-> FALSE]
  ELSE LET last == EdgeRec(c, u, d)
       IN IF last = <<>> THEN [e |-> [e EXCEPT !.einv[k] = "Yes"], b |-> TRUE]
          ELSE IF u \notin DOMAIN e.hout
               THEN [e |-> Err(e, "internal:No current history for job"), b |-> TRUE]
          ELSE IF Altered(c, d, last[1], e.hout[u])
               THEN [e |-> [e EXCEPT !.einv[k] = "Yes"], b |-> TRUE]
               ELSE [e |-> [e EXCEPT !.einv[k] = "No"], b |-> FALSE]

(* update_validation_status: [e, vs] *)
UVS(c, e0, j) ==
  LET step(acc, u) ==
        LET e == acc.e
            su == e.jst[u]
        IN IF su \in FinishedStates \/ su = "O:NotReady(Validated)"
           THEN LET r == EdgeInv(c, e, u, j)
                IN [e |-> r.e, inv |-> acc.inv \/ r.b, nd |-> acc.nd]
           ELSE IF su \in {"E:ReadyButDelayed", "E:NotReady(Validated)"}
           THEN IF OKey(u) \notin DOMAIN c.hist0
                THEN [acc EXCEPT !.e = Err(e, "internal:Should have had history for it")]
                ELSE IF EdgeRec(c, u, j) = <<>> THEN [acc EXCEPT !.inv = TRUE]
                ELSE IF Altered(c, j, EdgeRec(c, u, j)[1], c.hist0[OKey(u)])
                     THEN [e |-> [e EXCEPT !.ereq[EKey(u, j)] = "Yes"], inv |-> TRUE,
                           nd |-> acc.nd]
                     ELSE acc
           ELSE [acc EXCEPT !.nd = @ + 1]
      r == FoldL(step, [e |-> e0, inv |-> OKey(j) \notin DOMAIN c.hist0, nd |-> 0],
                 UpsOf(e0, j))
  IN [e |-> r.e,
      vs |-> IF r.inv THEN "Invalidated" ELSE IF r.nd = 0 THEN "Validated" ELSE "Unknown"]

(* downstream_requirement_status: "Unknown" | "Yes" | "No" | "ERR" (first decisive edge wins) *)
DRS(e, j) ==
  LET step(acc, d) ==
        IF acc.done THEN acc
        ELSE LET rq == e.ereq[EKey(j, d)]
                 sd == e.jst[d]
             IN IF rq = "Unknown" THEN [acc EXCEPT !.done = TRUE, !.res = "Unknown"]
                ELSE IF rq = "Yes" THEN [acc EXCEPT !.done = TRUE, !.res = "Yes"]
                ELSE IF sd \in {"O:NotReady(Validated)", "E:NotReady(Validated)",
                                "E:FinishedUpstreamFailure", "O:FinishedSkipped",
                                "O:FinishedUpstreamFailure"} THEN acc
                ELSE IF sd \in {"O:NotReady(Invalidated)", "E:NotReady(Invalidated)"}
                     THEN [acc EXCEPT !.done = TRUE, !.res = "Yes"]
                ELSE IF sd \in {"O:NotReady(Unknown)", "E:NotReady(Unknown)"}
                     THEN [acc EXCEPT !.unk = TRUE]
                ELSE [acc EXCEPT !.done = TRUE, !.res = "ERR"]
      r == FoldL(step, [done |-> FALSE, res |-> "No", unk |-> FALSE], DownsOf(e, j))
  IN IF r.done THEN r.res ELSE IF r.unk THEN "Unknown" ELSE "No"

(* all_downstreams_validated_or_upstream_failed: "T" | "F" | "ERR" *)
RECURSIVE ADV(_, _)
ADV(e, j) ==
  LET step(acc, d) ==
        IF acc # "T" THEN acc
        ELSE LET sd == e.jst[d] IN
             IF sd \in AStates THEN "ERR"
             ELSE IF sd \in {"O:NotReady(Unknown)", "O:NotReady(Invalidated)",
                             "E:NotReady(Unknown)", "E:NotReady(Invalidated)"} THEN "F"
             ELSE IF sd = "E:NotReady(Validated)" THEN ADV(e, d)
             ELSE IF sd \in {"O:NotReady(Validated)", "O:FinishedUpstreamFailure",
                             "E:FinishedUpstreamFailure", "O:FinishedSkipped"} THEN "T"
             ELSE "ERR"
  IN FoldL(step, "T", DownsOf(e, j))

(* consider_upstreams_for_cleanup: the scan of an upstream's downstreams stops at the first
   unfinished or failed one *)
CleanupUps(e0, j) ==
  LET
      step(e, u) ==
        IF e.jst[u] # "E:FinishedSuccessNotReadyForCleanup" THEN e
        ELSE LET r == FoldL(LAMBDA acc, d :
                              IF acc.stop THEN acc
                              ELSE IF e.jst[d] \notin FinishedStates
                                   THEN [stop |-> TRUE, done |-> FALSE, ok |-> acc.ok]
                              ELSE IF IsFailedSt(e.jst[d])
                                   THEN [stop |-> TRUE, done |-> acc.done, ok |-> FALSE]
                              ELSE acc,
                            [stop |-> FALSE, done |-> TRUE, ok |-> TRUE], DownsOf(e, u))
             IN IF ~r.done THEN e
                ELSE IF r.ok
                     THEN [SetSt(e, u, "E:FinishedSuccessReadyForCleanup")
                             EXCEPT !.cleanup = @ \cup {u}]
                     ELSE SetSt(e, u, "E:FinishedSuccessSkipCleanup")
  IN FoldL(step, e0, UpsOf(e0, j))

(***************************************************************************)
(* signal handlers (inner_process_signals)                                 *)
(***************************************************************************)
HReadyToRun(c, e, j) ==
  LET st == e.jst[j]
      to == CASE st = "A:Undetermined" -> "A:ReadyToRun"
              [] st = "O:NotReady(Invalidated)" -> "O:ReadyToRun"
              [] st = "E:NotReady(Invalidated)" -> "E:ReadyToRun(Invalidated)"
              [] st \in {"E:NotReady(Validated)", "E:ReadyButDelayed"} -> "E:ReadyToRun(Validated)"
              [] OTHER -> ""
  IN IF to = "" THEN Err(e, "internal:JobReadyToRun in unexpected state")
     ELSE [SetSt(e, j, to) EXCEPT !.ready = @ \cup {j}]

HFinishedSkip(c, e, j) ==
  LET st == e.jst[j]
      hget == IF OKey(j) \in DOMAIN c.hist0 THEN Put(e.hout, j, c.hist0[OKey(j)])
              ELSE Del(e.hout, j)
      e1 ==
        IF st \in AStates THEN Err(e, "internal:skipping always job")
        ELSE IF st \in {"O:FinishedSkipped", "E:FinishedSkipped"} THEN e
        ELSE IF st \in {"O:NotReady(Validated)", "O:NotReady(Unknown)"}
        THEN LET s1 == SetSt(e, j, "O:FinishedSkipped") IN
             IF OKey(j) \notin DOMAIN c.hist0
             THEN Err(s1, "internal:Skipped job, but no history was available")
             ELSE ReconsiderDelayedUps([s1 EXCEPT !.hout = hget], j)
        ELSE IF st \in OStates THEN Err(e, "internal:unexpected was 3")
        ELSE IF st \in {"E:NotReady(Validated)", "E:ReadyButDelayed"}
        THEN [SetSt(e, j, "E:FinishedSkipped") EXCEPT !.hout = hget]
        ELSE IF st = "E:NotReady(Invalidated)"
        THEN LET s1 == [SetSt(e, j, "E:FinishedSkipped") EXCEPT !.hout = hget] IN
             IF DownsOf(e, j) = <<>> \/ AllEph(c, e, j) THEN s1
             ELSE Err(s1, "panic:skipped invalidated ephemeral with non-ephemeral downstream")
        ELSE Err(e, "internal:unexpected was 4")
  IN IF e1.err # "" THEN e1 ELSE Push(e1, "JobDone", j)

HDone(c, e, j) ==
  IF ~IsFin(e, j) THEN Err(e, "internal:job_done on job not finished")
  ELSE CleanupUps(FoldL(LAMBDA acc, d : Reconsider(acc, d), e, DownsOf(e, j)), j)

HFinishedSuccess(c, e, j) ==
  LET st == e.jst[j] IN
  IF st \in {"A:Running", "O:Running"}
  THEN Push(SetSt(e, j, K(c, j, "FinishedSuccess")), "JobDone", j)
  ELSE IF st \in {"E:Running(Validated)", "E:Running(Invalidated)", "E:Running(Unknown)"}
  THEN Push(SetSt(e, j, "E:FinishedSuccessNotReadyForCleanup"), "JobDone", j)
  ELSE Err(e, "internal:unexpected was 5")

HFinishedFailure(c, e, j) ==
  IF e.jst[j] \notin RunningStates THEN Err(e, "internal:unexpected was 6")
  ELSE FoldL(LAMBDA acc, d : Push(acc, "JobUpstreamFailure", d),
             Push(SetSt(e, j, K(c, j, "FinishedFailure")), "JobDone", j), DownsOf(e, j))

HUpstreamFailure(c, e, j) ==
  LET st == e.jst[j]
      hit == st \in {"A:Undetermined", "O:NotReady(Unknown)", "O:NotReady(Validated)",
                     "O:NotReady(Invalidated)", "E:NotReady(Unknown)", "E:NotReady(Validated)",
                     "E:NotReady(Invalidated)", "O:FinishedSkipped"}
  IN IF ~hit THEN e   \* already upstream-failed, or already started / finished
     ELSE LET e1 == Push(SetSt(e, j, K(c, j, "FinishedUpstreamFailure")), "JobDone", j)
              e2 == FoldL(LAMBDA acc, d : Push(Block(acc, d), "JobUpstreamFailure", d),
                          e1, DownsOf(e, j))
          IN ReconsiderEphUps(e2, j)

HCleanedUp(c, e, j) ==
  IF e.jst[j] = "E:FinishedSuccessReadyForCleanup"
  THEN [SetSt(e, j, "E:FinishedSuccessCleanedUp") EXCEPT !.cleanup = @ \ {j}]
  ELSE Err(e, "internal:unexpected was 8")

HAborted(c, e, j) ==
  IF IsFin(e, j) THEN e
  ELSE [SetSt(e, j, K(c, j, "FinishedAborted")) EXCEPT !.ready = @ \ {j}]

(* signal_consider_job *)
HConsider(c, e, j) ==
  LET st == e.jst[j] IN
  CASE st = "A:Undetermined" ->
         IF AllUpsDone(e, j) THEN Push(Block(e, j), "JobReadyToRun", j) ELSE e
    [] st = "O:NotReady(Unknown)" ->
         LET r == UVS(c, e, j) IN
         IF r.e.err # "" THEN r.e
         ELSE IF r.vs = "Unknown" THEN r.e
         ELSE IF r.vs = "Validated"
              THEN ReconsiderEphUps(
                     Reconsider(Push(Block(SetUpEdges(r.e, j, "No"), j), "JobFinishedSkip", j), j), j)
              ELSE ReconsiderEphUps(
                     Reconsider(PropReq(c, SetSt(r.e, j, "O:NotReady(Invalidated)"), j), j), j)
    [] st = "O:NotReady(Validated)" ->
         IF AllUpsDone(e, j) THEN Push(e, "JobFinishedSkip", j) ELSE e
    [] st = "O:NotReady(Invalidated)" ->
         IF AllUpsDone(e, j) THEN Push(Block(e, j), "JobReadyToRun", j)
         ELSE ReconsiderDelayedUps(e, j)
    [] st = "E:NotReady(Invalidated)" ->
         IF ~AllUpsDone(e, j) THEN e
         ELSE IF DownsOf(e, j) # <<>> /\ ~AllEph(c, e, j)
              THEN Push(Block(e, j), "JobReadyToRun", j)
              ELSE Push(e, "JobFinishedSkip", j)
    [] st = "E:NotReady(Validated)" ->
         IF AllUpsDone(e, j) THEN Reconsider(SetSt(e, j, "E:ReadyButDelayed"), j)
         ELSE LET d == DRS(e, j) IN
              IF d = "ERR" THEN Err(e, "internal:bug1943")
              ELSE IF d = "Yes" THEN ReconsiderEphUps(SetUpEdges(e, j, "Yes"), j)
              ELSE IF d = "Unknown" THEN ConsiderDowns(e, j)
              ELSE ReconsiderEphUps(SetUpEdges(e, j, "No"), j)
    [] st = "E:ReadyButDelayed" ->
         LET d == DRS(e, j) IN
         IF d = "ERR" THEN Err(e, "internal:bug1943")
         ELSE IF d = "Yes" THEN Push(Block(e, j), "JobReadyToRun", j)
         ELSE LET a == ADV(e, j) IN
              IF a = "ERR" THEN Err(e, "internal:all_downstreams_validated unexpected state")
              ELSE IF a = "T" THEN Push(Block(e, j), "JobFinishedSkip", j)
              ELSE ConsiderDowns(e, j)
    [] st = "E:NotReady(Unknown)" ->
         LET r == UVS(c, e, j) IN
         IF r.e.err # "" THEN r.e
         ELSE IF r.vs = "Unknown" THEN r.e
         ELSE LET e1 == Reconsider(SetSt(r.e, j, "E:NotReady(" \o r.vs \o ")"), j)
              IN IF r.vs = "Invalidated" THEN ReconsiderEphUps(e1, j) ELSE e1
    [] OTHER -> e

(***************************************************************************)
(* One handled signal (the body of the `for signal in self.signals.drain`  *)
(* loop), including the roll-over to the next wave when the queue empties. *)
(***************************************************************************)
HandleOne(c, e0) ==
  LET sig == Head(e0.sigq)
      k == sig[1]
      j == sig[2]
      e == [e0 EXCEPT !.sigq = Tail(@), !.log = Append(@, <<"sig", k, j>>)]
      h == CASE k = "JobReadyToRun" -> HReadyToRun(c, e, j)
             [] k = "JobFinishedSkip" -> HFinishedSkip(c, e, j)
             [] k = "JobDone" -> HDone(c, e, j)
             [] k = "JobFinishedSuccess" -> HFinishedSuccess(c, e, j)
             [] k = "JobFinishedFailure" -> HFinishedFailure(c, e, j)
             [] k = "JobUpstreamFailure" -> HUpstreamFailure(c, e, j)
             [] k = "ConsiderJob" ->
                  IF j \in e.ignore THEN [e EXCEPT !.ignore = @ \ {j}] ELSE HConsider(c, e, j)
             [] k = "JobCleanedUp" -> HCleanedUp(c, e, j)
             [] k = "JobAborted" -> HAborted(c, e, j)
  IN IF h.err # "" \/ h.sigq # <<>> THEN h
     ELSE IF h.newq = <<>> THEN [h EXCEPT !.ignore = {}]
     ELSE IF h.depth + 1 > DepthLimit(c)
          THEN Err(h, "internal:Depth ConsiderJob loop")
          ELSE [h EXCEPT !.sigq = h.newq, !.newq = <<>>, !.ignore = {}, !.depth = @ + 1,
                         !.maxdepth = IF h.depth + 1 > @ THEN h.depth + 1 ELSE @]

RECURSIVE Quiesce(_, _)
Quiesce(c, e) ==
  IF e.err # "" \/ e.sigq = <<>> THEN e ELSE Quiesce(c, HandleOne(c, e))

(* is_finished(): latches Running -> Finished *)
Latch(c, e) ==
  IF e.err = "" /\ e.phase = "Running" /\ \A j \in Nodes(c) : IsFin(e, j)
  THEN [e EXCEPT !.phase = "Finished"] ELSE e

(***************************************************************************)
(* event_startup                                                           *)
(* ord = [up, dn : job -> sequence of direct neighbours in the pruned dag, *)
(*        nodes : dag.nodes() order, jobs : declaration order,             *)
(*        topo : the topological order used]                               *)
(* TLC (PPGEngineMC) chooses every consistent ord; in strict trace mode it *)
(* is the one the real engine used (hook snapshot).                        *)
(***************************************************************************)
InitJst(c) == [j \in Nodes(c) |->
                 IF c.kind[j] = "A" THEN "A:Undetermined" ELSE K(c, j, "NotReady(Unknown)")]
EInit(c) ==
  [phase |-> "NotStarted", jst |-> InitJst(c), hout |-> <<>>,
   ereq |-> <<>>, einv |-> <<>>, ready |-> {}, cleanup |-> {},
   sigq |-> <<>>, newq |-> <<>>, ignore |-> {}, cgen |-> Nodes(c), started |-> {},
   ord |-> <<>>, depth |-> 0, maxdepth |-> 0, err |-> "", log |-> <<>>]

DagEdges(c) == {x \in Edges(c) : x[1] \notin LeafySet(c) /\ x[2] \notin LeafySet(c)}

OrdOK(c, ord) ==
  LET N == Nodes(c) \ LeafySet(c) IN
  /\ DOMAIN ord.up = Nodes(c) /\ DOMAIN ord.dn = Nodes(c)
  /\ \A j \in Nodes(c) :
        /\ ToSet(ord.up[j]) = {x[1] : x \in {y \in DagEdges(c) : y[2] = j}}
        /\ ToSet(ord.dn[j]) = {x[2] : x \in {y \in DagEdges(c) : y[1] = j}}
        /\ Len(ord.up[j]) = Cardinality(ToSet(ord.up[j]))
        /\ Len(ord.dn[j]) = Cardinality(ToSet(ord.dn[j]))
  /\ ToSet(ord.nodes) = N /\ Len(ord.nodes) = Cardinality(N)
  /\ ToSet(ord.topo) = N /\ Len(ord.topo) = Cardinality(N)
  /\ \A a \in DOMAIN ord.topo : \A b \in DOMAIN ord.topo :
        <<ord.topo[a], ord.topo[b]>> \in DagEdges(c) => a < b
  /\ ToSet(ord.jobs) = Nodes(c) /\ Len(ord.jobs) = Cardinality(Nodes(c))

(* the sorted sequence of a set of ids / names *)
Sorted(c, S) == SelectSeq(c.sorted, LAMBDA x : x \in S)

(* identify_missing_outputs, one job (reverse topological order) *)
IdentifyOne(c, e, j) ==
  LET nk == NKey(j)
      changed == IF nk \in DOMAIN c.hist0
                 THEN ToSet(c.hist0[nk].names) # InputNames(c, j)
                 ELSE UpsOf(e, j) = <<>>
      st == e.jst[j]
  IN IF changed
     THEN LET e1 == SetUpEdges(e, j, "Yes") IN
          IF st = "A:Undetermined" THEN e1
          ELSE IF st \in {"O:NotReady(Unknown)", "E:NotReady(Unknown)"}
               THEN SetSt(e1, j, K(c, j, "NotReady(Invalidated)"))
               ELSE Err(e1, "internal:should not happen 1942")
     ELSE IF c.kind[j] = "A" THEN SetUpEdges(e, j, "Yes")
     ELSE IF c.kind[j] = "O"
          THEN IF j \in DOMAIN c.file0 /\ OKey(j) \in DOMAIN c.hist0
               THEN SetUpEdges(e, j, "No")
               ELSE SetSt(SetUpEdges(e, j, "Yes"), j, "O:NotReady(Invalidated)")
     ELSE LET r == FoldL(LAMBDA acc, d :
                           IF acc # "No" THEN acc
                           ELSE IF e.ereq[EKey(j, d)] = "Unknown" THEN "ERR"
                           ELSE IF e.ereq[EKey(j, d)] = "Yes" THEN "Yes" ELSE "No",
                         "No", DownsOf(e, j))
          IN IF r = "ERR" THEN Err(e, "internal:identify_missing_outputs: edge requirement unknown")
             ELSE SetUpEdges(e, j, r)

Reverse2(s) == [i \in 1..Len(s) |-> s[Len(s) + 1 - i]]

(* ...Pre: the call up to (not including) process_signals; the queue is left for HandleOne *)
StartupPre(c, e0, ord) ==
  IF e0.phase # "NotStarted" THEN [e |-> e0, res |-> "api"]
  ELSE
  LET leafy == LeafySet(c)
      keys == {EKey(x[1], x[2]) : x \in DagEdges(c)}
      \* prune_leaf_ephemerals: direct state write, no generation advance
      e1 == [e0 EXCEPT !.phase = "Running", !.ord = ord, !.depth = 0, !.log = <<>>,
                       !.jst = [j \in Nodes(c) |-> IF j \in leafy THEN "E:FinishedSkipped" ELSE @[j]],
                       !.ereq = [k \in keys |-> "Unknown"], !.einv = [k \in keys |-> "Unknown"]]
      e2 == FoldL(LAMBDA acc, j : IF acc.err # "" THEN acc ELSE IdentifyOne(c, acc, j),
                  e1, Reverse2(ord.topo))
      roots == SelectSeq(ord.nodes, LAMBDA j : ord.up[j] = <<>>)
      e3 == [e2 EXCEPT !.sigq = [i \in 1..Len(roots) |-> <<"ConsiderJob", roots[i]>>]]
  IN [e |-> e3, res |-> "ok"]

(***************************************************************************)
(* driver calls.  Each returns [e, res] with res in                        *)
(* "ok" | "api" | "changed" | "dead" (internal error or panic).            *)
(***************************************************************************)
Begin(e) == [e EXCEPT !.depth = 0, !.log = <<>>]
(* run the queue to quiescence: the rest of the call *)
Finish(c, p) ==
  IF p.res = "api" THEN p
  ELSE LET q == Latch(c, Quiesce(c, p.e)) IN [e |-> q, res |-> IF q.err = "" THEN p.res ELSE "dead"]
Startup(c, e0, ord) == Finish(c, StartupPre(c, e0, ord))

NowRunning(c, e, j) ==
  LET st == e.jst[j]
      to == CASE st = "A:ReadyToRun" -> "A:Running"
              [] st = "O:ReadyToRun" -> "O:Running"
              [] st = "E:ReadyToRun(Validated)" -> "E:Running(Validated)"
              [] st = "E:ReadyToRun(Invalidated)" -> "E:Running(Invalidated)"
              [] st = "E:ReadyToRun(Unknown)" -> "E:Running(Unknown)"
              [] OTHER -> ""
  IN IF to = "" THEN [e |-> e, res |-> "api"]
     ELSE [e |-> Latch(c, [SetSt(Begin(e), j, to) EXCEPT !.started = @ \cup {j}, !.ready = @ \ {j}]),
           res |-> "ok"]

FinishedSuccessPre(c, e, j, val) ==
  IF e.jst[j] \notin RunningStates THEN [e |-> e, res |-> "api"]
  ELSE IF e.jst[j] = "E:Running(Validated)" /\ OKey(j) \in DOMAIN c.hist0
          /\ Altered(c, "", c.hist0[OKey(j)], val)
       THEN [e |-> [Begin(e) EXCEPT !.sigq = <<<<"JobFinishedFailure", j>>>>], res |-> "changed"]
       ELSE [e |-> [Begin(e) EXCEPT !.hout = Put(@, j, val),
                                    !.sigq = <<<<"JobFinishedSuccess", j>>>>], res |-> "ok"]
FinishedSuccess(c, e, j, val) == Finish(c, FinishedSuccessPre(c, e, j, val))

FinishedFailurePre(c, e, j) ==
  IF e.jst[j] \notin RunningStates THEN [e |-> e, res |-> "api"]
  ELSE [e |-> [Begin(e) EXCEPT !.sigq = <<<<"JobFinishedFailure", j>>>>], res |-> "ok"]
FinishedFailure(c, e, j) == Finish(c, FinishedFailurePre(c, e, j))

CleanupDonePre(c, e, j) ==
  IF e.jst[j] # "E:FinishedSuccessReadyForCleanup" THEN [e |-> e, res |-> "api"]
  ELSE [e |-> [Begin(e) EXCEPT !.sigq = <<<<"JobCleanedUp", j>>>>], res |-> "ok"]
CleanupDone(c, e, j) == Finish(c, CleanupDonePre(c, e, j))

AbortRemainingPre(c, e) ==
  LET todo == SelectSeq(e.ord.jobs, LAMBDA j : ~IsFin(e, j))
  IN [e |-> [Begin(e) EXCEPT !.sigq = [i \in 1..Len(todo) |-> <<"JobAborted", todo[i]>>]],
      res |-> "ok"]
AbortRemaining(c, e) == Finish(c, AbortRemainingPre(c, e))

(* reconsider_all_jobs(): a ConsiderJob for every unfinished job (subject to the same guard as
   every other reconsideration), then the queue is processed *)
ReconsiderAllPre(c, e) ==
  LET todo == SelectSeq(e.ord.jobs, LAMBDA j : ~IsFin(e, j))
      e1 == FoldL(LAMBDA acc, j : Reconsider(acc, j), Begin(e), todo)
  IN [e |-> [e1 EXCEPT !.sigq = e1.newq, !.newq = <<>>], res |-> "ok"]
ReconsiderAll(c, e) == Finish(c, ReconsiderAllPre(c, e))

(***************************************************************************)
(* new_history: [res, h]                                                   *)
(***************************************************************************)
FilterIfRenamed(c, id) ==
  \A p \in ToSet(c.idnames[id]) : HasProducer(c, p) => Producer(c, p) = id

NamesRec(c, j) == [names |-> Sorted(c, InputNames(c, j))]

NewHistory(c, e) ==
  LET N == Nodes(c)
      ids == ToSet(c.ids)
      dag == DagEdges(c)
      keepE(a, b) == IF a \in N /\ b \in N THEN <<a, b>> \in dag
                     ELSE FilterIfRenamed(c, b)
                          /\ (FilterIfRenamed(c, a) \/ b \notin N \/ b \notin DOMAIN e.hout)
      kept == ({OKey(a) : a \in {x \in ids : FilterIfRenamed(c, x)}}
               \cup {NKey(a) : a \in {x \in ids : FilterIfRenamed(c, x)}}
               \cup {EKey(p[1], p[2]) : p \in {q \in ids \X ids : keepE(q[1], q[2])}})
              \cap DOMAIN c.hist0
      h0 == [k \in kept |-> c.hist0[k]]
      \* per job
      jobstep(acc, j) ==
        IF acc.res # "ok" THEN acc
        ELSE IF j \in DOMAIN e.hout
        THEN [acc EXCEPT !.h = Put(Put(@, NKey(j), NamesRec(c, j)), OKey(j), e.hout[j])]
        ELSE IF ~(IsFailedSt(e.jst[j]) \/ AllEph(c, e, j)) THEN [acc EXCEPT !.res = "panic"]
        ELSE IF e.jst[j] \in UpfStates \/ (e.jst[j] \in AbortedStates /\ j \notin e.started)
             THEN acc
             ELSE [acc EXCEPT !.h = Del(Del(@, OKey(j)), NKey(j))]
      r1 == FoldL(jobstep, [res |-> "ok", h |-> h0], e.ord.jobs)
      \* per edge of the pruned dag
      edgestep(acc, x) ==
        LET a == x[1] b == x[2] key == EKey(x[1], x[2])
            second == b \in DOMAIN e.hout \/ e.jst[b] = "E:FinishedSkipped"
            sa == e.jst[a]
        IN IF acc.res # "ok" \/ ~second THEN acc
           ELSE IF a \in DOMAIN e.hout THEN [acc EXCEPT !.h = Put(@, key, e.hout[a])]
           ELSE IF sa \in SkippedStates
                THEN IF key \in DOMAIN c.hist0 THEN [acc EXCEPT !.h = Put(@, key, c.hist0[key])]
                     ELSE IF OKey(a) \in DOMAIN c.hist0
                          THEN [acc EXCEPT !.h = Put(@, key, c.hist0[OKey(a)])]
                     ELSE IF c.kind[a] = "E" THEN acc ELSE [acc EXCEPT !.res = "internal"]
           ELSE IF IsFailedSt(sa)
                THEN IF key \in DOMAIN c.hist0 THEN [acc EXCEPT !.h = Put(@, key, c.hist0[key])]
                     ELSE acc
           ELSE [acc EXCEPT !.res = "internal"]
      edgeseq == \* any order: the steps touch disjoint keys; only which error comes first differs
        FoldL(LAMBDA acc, u : acc \o [i \in 1..Len(e.ord.dn[u]) |-> <<u, e.ord.dn[u][i]>>],
              <<>>, e.ord.jobs)
  IN FoldL(edgestep, r1, edgeseq)

(***************************************************************************)
(* Rebuilding the engine state from a recorded observable state (strict    *)
(* trace mode) and comparing a model state with a recorded one.            *)
(***************************************************************************)
FromObs(c, s, ord) ==
  [phase |-> s.phase, jst |-> s.jst, hout |-> s.outs, ereq |-> s.ereq, einv |-> s.einv,
   ready |-> s.ready, cleanup |-> s.cleanup, sigq |-> <<>>, newq |-> <<>>, ignore |-> {},
   cgen |-> s.cgen, started |-> s.estarted, ord |-> ord, depth |-> 0, maxdepth |-> 0, err |-> "",
   log |-> <<>>]

SameFn(f, g) == DOMAIN f = DOMAIN g /\ \A k \in DOMAIN f : f[k] = g[k]

(* which fields of the model state differ from the recorded state (empty = conformant) *)
Diff(e, s) ==
  {f \in {"phase", "jst", "hout", "ereq", "einv", "ready", "cleanup", "cgen", "started"} :
     CASE f = "phase" -> e.phase # s.phase
       [] f = "jst" -> ~SameFn(e.jst, s.jst)
       [] f = "hout" -> ~SameFn(e.hout, s.outs)
       [] f = "ereq" -> ~SameFn(e.ereq, s.ereq)
       [] f = "einv" -> ~SameFn(e.einv, s.einv)
       [] f = "ready" -> e.ready # s.ready
       [] f = "cleanup" -> e.cleanup # s.cleanup
       [] f = "cgen" -> e.cgen # s.cgen
       [] f = "started" -> e.started # s.estarted}

SigLog(log) == SelectSeq(log, LAMBDA x : x[1] = "sig")
=============================================================================
