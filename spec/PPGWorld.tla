------------------------------ MODULE PPGWorld ------------------------------
(***************************************************************************)
(* The world around the engine model, as pure operators: job names, graph  *)
(* contexts, the observable state signature of PPGProps, the driver calls  *)
(* as functions on (engine state, world state), the canonical schedule and *)
(* the failure-free twin run.  Shared by PPGEngineMC (all behaviours) and  *)
(* PPGDepth (size families).                                               *)
(***************************************************************************)
EXTENDS PPGEngine

CONSTANT NJobs   \* number of jobs of the universe graph

JobName(i) == "N" \o ToString(i)
AllJobs == {JobName(i) : i \in 0..(NJobs - 1)}
JobSeq == [i \in 1..NJobs |-> JobName(i - 1)]
Fwd == {p \in (0..(NJobs - 1)) \X (0..(NJobs - 1)) : p[1] < p[2]}

SeqOfSet(S) == SelectSeq(JobSeq, LAMBDA x : x \in S)   \* sorted (N0 < N1 < ...)
EdgeSeq(E) ==
  LET all == [i \in 1..(NJobs * NJobs) |->
                <<JobName((i - 1) \div NJobs), JobName((i - 1) % NJobs)>>]
  IN SelectSeq(all, LAMBDA x : x \in E)

Perms(S) == {s \in [1..Cardinality(S) -> S] : \A i, j \in 1..Cardinality(S) : i # j => s[i] # s[j]}
RECURSIVE FlattenLayers(_, _)
FlattenLayers(layers, keep) ==
  IF layers = <<>> THEN <<>>
  ELSE SeqOfSet(Head(layers) \cap keep) \o FlattenLayers(Tail(layers), keep)
CanonOrd(cc) ==
  LET N == Nodes(cc)
      D == DagEdges(cc)
      In == N \ LeafySet(cc)
  IN [up |-> [j \in N |-> SeqOfSet({x[1] : x \in {y \in D : y[2] = j}})],
      dn |-> [j \in N |-> SeqOfSet({x[2] : x \in {y \in D : y[1] = j}})],
      nodes |-> SeqOfSet(In), jobs |-> SeqOfSet(N), topo |-> FlattenLayers(TopoLayers(cc), In)]
(***************************************************************************)
(* contexts                                                                *)
(***************************************************************************)
MkCtx(kind, edges, usesmode, cmp, ver, evalno, hist0, file0, fail, flaky, det, edit, prevsucc) ==
  LET N == DOMAIN kind
      ups(j) == {x[1] : x \in {y \in edges : y[2] = j}}
  IN [nodes |-> SeqOfSet(N), kind |-> kind, edges |-> EdgeSeq(edges),
      names |-> [j \in N |-> <<j>>],
      needs |-> [j \in N |-> SeqOfSet(ups(j))],
      uses |-> [j \in N |-> IF usesmode = "all" THEN SeqOfSet(ups(j)) ELSE <<>>],
      conv |-> "ids", cmp |-> cmp, ver |-> ver, evalno |-> evalno,
      hist0 |-> hist0, file0 |-> file0, det |-> det, steps |-> TRUE,
      prevsucc |-> SeqOfSet(prevsucc),
      fail |-> SeqOfSet(fail), flaky |-> SeqOfSet(flaky), edit |-> edit,
      ids |-> JobSeq, idnames |-> [j \in AllJobs |-> <<j>>], sorted |-> JobSeq,
      usesmode |-> usesmode,
      \* the world's ground truth of PPGProps C03b is kept by the trace harness only
      truth |-> FALSE, built |-> <<>>, dirty |-> <<>>]

W0(file0) ==
  [started |-> {}, succ |-> {}, faildel |-> {}, changed |-> {}, cleaned |-> {}, offered |-> {},
   coffered |-> {}, skipev |-> {}, rep |-> <<>>, cons |-> <<>>, pending |-> <<>>,
   file |-> file0, temp |-> <<>>, aval |-> <<>>, aborted |-> FALSE, aborting |-> FALSE,
   rab |-> {}]

NoPre == [none |-> TRUE]
NoPrev == [none |-> TRUE]

(***************************************************************************)
(* the observable state signature of PPGProps                              *)
(***************************************************************************)
Obs(cc, ee, ww) ==
  LET N == Nodes(cc) IN
  [dead |-> ee.err # "", fin |-> ee.phase = "Finished", phase |-> ee.phase,
   qlen |-> Len(ee.sigq),
   ready |-> ee.ready,
   running |-> {j \in N : ee.jst[j] \in RunningStates},
   cleanup |-> ee.cleanup,
   failed |-> {j \in N : ee.jst[j] \in FailedStates},
   upf |-> {j \in N : ee.jst[j] \in UpfStates},
   outs |-> ee.hout, jst |-> ee.jst,
   started |-> ww.started, estarted |-> ee.started, succ |-> ww.succ, faildel |-> ww.faildel, changed |-> ww.changed,
   cleaned |-> ww.cleaned, offered |-> ww.offered, coffered |-> ww.coffered,
   skipev |-> ww.skipev, rep |-> ww.rep, cons |-> ww.cons, file |-> ww.file, temp |-> ww.temp,
   aval |-> ww.aval, aborted |-> ww.aborted, aborting |-> ww.aborting, rab |-> ww.rab]

(* the driver looks at the engine whenever a call has returned: ever-offered sets, and the jobs
   the call's transition log shows entering a skipped state (pruned leaves at startup) *)
Observe(cc, ee, ww) ==
  [ww EXCEPT !.offered = @ \cup ee.ready, !.coffered = @ \cup ee.cleanup,
             !.skipev = @ \cup {ee.log[i][2] : i \in {k \in DOMAIN ee.log :
                                      ee.log[k][1] = "st" /\ ee.log[k][4] \in SkippedStates}}
                          \cup {j \in LeafySet(cc) : ee.phase # "NotStarted"}]
(* a call has returned when its queue is empty *)
Settle(cc, r) ==
  IF r.e.sigq = <<>> \/ r.e.err # ""
  THEN LET le == Latch(cc, r.e) IN [r EXCEPT !.e = le, !.w = Observe(cc, le, r.w)]
  ELSE r

(***************************************************************************)
(* driver calls as functions (cc, ee, ww, ..) |-> [e, w, res], queue left  *)
(* unprocessed (PPGEngine's ...Pre operators)                              *)
(***************************************************************************)
RunningJobs(cc, ee) == {j \in Nodes(cc) : ee.jst[j] \in RunningStates}

DStartup(cc, ee, ww, ord) ==
  LET p == StartupPre(cc, ee, ord) IN [e |-> p.e, w |-> ww, res |-> p.res]

DStart(cc, ee, ww, j) ==
  LET ups == Ups(cc, j)
      src(x) == IF cc.kind[x] = "O" THEN ww.file ELSE IF cc.kind[x] = "E" THEN ww.temp ELSE ww.aval
      wv(x) == IF x \in DOMAIN src(x) THEN src(x)[x] ELSE [MISSING |-> TRUE]
      cons == [x \in ups |-> IF x \in DOMAIN ee.hout THEN [w |-> wv(x), e |-> ee.hout[x]]
                             ELSE [w |-> wv(x)]]
      read == [m \in ToSet(cc.uses[j]) |->
                 LET x == Producer(cc, m) IN
                 IF m \in DOMAIN wv(x) THEN wv(x)[m] ELSE [MISSING |-> TRUE]]
      content == Beh(cc, j, read, IF j \in ToSet(cc.flaky) THEN cc.evalno ELSE 0)
      p == NowRunning(cc, ee, j)
  IN [e |-> p.e, res |-> p.res,
      w |-> IF p.res # "ok" THEN ww
            ELSE [ww EXCEPT !.started = @ \cup {j}, !.cons = Put(@, j, cons),
                            !.pending = Put(@, j, content),
                            !.file = IF cc.kind[j] = "O" THEN Put(@, j, Garbage) ELSE @]]

DSucceed(cc, ee, ww, j) ==
  LET content == ww.pending[j]
      val == Stamp(cc, content)
      p == FinishedSuccessPre(cc, ee, j, val)
  IN [e |-> p.e, res |-> p.res,
      w |-> [ww EXCEPT !.rep = Put(@, j, val),
                       !.file = IF cc.kind[j] = "O" THEN Put(@, j, content) ELSE @,
                       !.temp = IF cc.kind[j] = "E" THEN Put(@, j, content) ELSE @,
                       !.aval = IF cc.kind[j] = "A" THEN Put(@, j, content) ELSE @,
                       !.succ = IF p.res = "ok" THEN @ \cup {j} ELSE @,
                       !.changed = IF p.res = "changed" THEN @ \cup {j} ELSE @]]

DFail(cc, ee, ww, j, aborting) ==
  LET p == FinishedFailurePre(cc, ee, j)
  IN [e |-> p.e, res |-> p.res,
      w |-> [ww EXCEPT !.faildel = @ \cup {j}, !.aborting = @ \/ aborting]]

DAbort(cc, ee, ww) ==
  LET p == AbortRemainingPre(cc, ee)
  IN [e |-> p.e, res |-> p.res,
      w |-> [ww EXCEPT !.aborted = TRUE, !.aborting = FALSE, !.rab = RunningJobs(cc, ee)]]

DCleanup(cc, ee, ww, j) ==
  LET p == CleanupDonePre(cc, ee, j)
  IN [e |-> p.e, res |-> p.res,
      w |-> [ww EXCEPT !.cleaned = @ \cup {j}, !.temp = Del(@, j)]]

(***************************************************************************)
(* the failure-free twin of an evaluation: the same context without faults,*)
(* canonical iteration order, canonical schedule (cleanups first, then the *)
(* least running job finishes, then the least offered job starts).         *)
(***************************************************************************)
Least(Q) == CHOOSE x \in Q : \A y \in Q : \E i, k \in DOMAIN JobSeq :
              JobSeq[i] = x /\ JobSeq[k] = y /\ i <= k
Full(cc, p) == Settle(cc, [p EXCEPT !.e = Quiesce(cc, p.e)])
RECURSIVE CanonLoop(_, _, _)
CanonLoop(cc, r, fuel) ==
  LET ee == r.e
      ww == r.w
      run == RunningJobs(cc, ee)
  IN IF fuel = 0 \/ ee.err # "" \/ (ee.phase = "Finished" /\ ee.cleanup = {}) THEN r
     ELSE IF ee.cleanup # {}
          THEN CanonLoop(cc, Full(cc, DCleanup(cc, ee, ww, Least(ee.cleanup))), fuel - 1)
     ELSE IF run # {} THEN CanonLoop(cc, Full(cc, DSucceed(cc, ee, ww, Least(run))), fuel - 1)
     ELSE IF ee.ready # {}
          THEN CanonLoop(cc, Full(cc, DStart(cc, ee, ww, Least(ee.ready))), fuel - 1)
     ELSE r
Twin(cc) ==
  LET tc == [cc EXCEPT !.fail = <<>>, !.flaky = <<>>]
      r0 == Full(tc, DStartup(tc, EInit(tc), W0(tc.file0), CanonOrd(tc)))
      r == CanonLoop(tc, r0, 4 * NJobs + 2)
      nh == NewHistory(tc, r.e)
  IN [s |-> Obs(tc, r.e, r.w), nh |-> nh.res, h1 |-> nh.h]

=============================================================================
