------------------------------ MODULE PPGTrace ------------------------------
(***************************************************************************)
(* Trace specification: reads an NDJSON trace recorded from the REAL       *)
(* engine by /verif/harness and evaluates the property predicates of       *)
(* PPGProps on every recorded state, transition and finished evaluation.   *)
(*                                                                         *)
(* Line kinds (field t):                                                   *)
(*   ctx  evaluation context (graph, history in, files, faults, links to   *)
(*        the previous / twin evaluations of the same scenario)            *)
(*   st   one distinct observable state reached in that context            *)
(*   tr   one distinct transition  from --call/result--> to  (line numbers *)
(*        of st lines; from = 0 for event_startup), with the hook's micro  *)
(*        step log of that call                                            *)
(*   end  a finished evaluation: final st line, new_history result         *)
(* The file carries the whole state GRAPH of an exhaustive exploration, so *)
(* each distinct state/transition is checked once, not once per schedule.  *)
(*                                                                         *)
(* The behaviour of this spec consumes one line per step; `viol` collects  *)
(* the failing clauses (so that known findings can be told from new        *)
(* violations), `cov` counts how often each clause's antecedent held       *)
(* (vacuity), and the last step writes both to IOEnv.OUT.                  *)
(***************************************************************************)
EXTENDS PPGEngine, Json, IOUtils

CONSTANT SelProps      \* property ids to evaluate, e.g. {"C02", "H"}
CONSTANT MaxViol       \* stop collecting after this many

Rec == ndJsonDeserialize(IOEnv.TRACE)

VARIABLES l, cx, viol, cov
vars == <<l, cx, viol, cov>>

SetFields == {"ready", "running", "cleanup", "failed", "upf", "indag", "started", "succ",
              "faildel", "changed", "cleaned", "offered", "coffered", "skipev", "rab", "cgen", "estarted"}
Norm(r) == [f \in DOMAIN r |-> IF f \in SetFields THEN ToSet(r[f]) ELSE r[f]]

NoCtx == [none |-> TRUE]

(* name, property, line kind *)
Clauses == <<
  <<"C01a", "C01", "end">>,
  <<"C02a", "C02", "st">>, <<"C02b", "C02", "st">>, <<"C02c", "C02", "st">>,
  <<"C02d", "C02", "st">>, <<"C02e", "C02", "st">>,
  <<"C03a", "C03", "end">>, <<"C03b", "C03", "end">>,
  <<"C04a", "C04", "end">>, <<"C04b", "C04", "end">>, <<"C04c", "C04", "end">>,
  <<"C05a", "C05", "st">>, <<"C05b", "C05", "st">>, <<"C05c", "C05", "tr">>,
  <<"C06a", "C06", "tr">>, <<"C06b", "C06", "tr">>, <<"C06c", "C06", "end">>,
  <<"C07a", "C07", "st">>, <<"C07b", "C07", "end">>, <<"C07c", "C07", "st">>,
  <<"C07d", "C07", "st">>, <<"C07e", "C07", "end">>, <<"C07f", "C07", "tr">>,
  <<"C08a", "C08", "end">>, <<"C08b", "C08", "end">>, <<"C08c", "C08", "end">>,
  <<"C09a", "C09", "end">>, <<"C09b", "C09", "end">>, <<"C09c", "C09", "end">>,
  <<"C09d", "C09", "end">>,
  <<"C10a", "C10", "tr">>, <<"C10b", "C10", "tr">>, <<"C10c", "C10", "end">>,
  <<"C11a", "C11", "end">>, <<"C11b", "C11", "end">>, <<"C11c", "C11", "end">>,
  <<"C11d", "C11", "end">>, <<"C11e", "C11", "end">>,
  <<"C12a", "C12", "end">>, <<"C12b", "C12", "end">>, <<"C12c", "C12", "end">>, <<"C12d", "C12", "end">>,
  <<"C13a", "C13", "st">>, <<"C13b", "C13", "st">>, <<"C13c", "C13", "tr">>,
  <<"C13d", "C13", "tr">>, <<"C13e", "C13", "end">>, <<"C13f", "C13", "tr">>,
  <<"C14a", "C14", "end">>, <<"C14b", "C14", "end">>,
  <<"C15a", "C15", "end">>, <<"C15b", "C15", "end">>,
  <<"C16a", "C16", "tr">>, <<"C16b", "C16", "tr">>, <<"C16c", "C16", "end">>,
  <<"C17a", "C17", "st">>, <<"C17b", "C17", "st">>, <<"C17c", "C17", "st">>,
  <<"C17d", "C17", "st">>, <<"C17e", "C17", "st">>, <<"C17f", "C17", "st">>,
  <<"C17g", "C17", "st">>, <<"C17h", "C17", "st">>, <<"C17i", "C17", "tr">>,
  <<"C17j", "C17", "tr">>, <<"C17k", "C17", "tr">>, <<"C17l", "C17", "tr">>,
  <<"C18a", "C18", "end">>, <<"C18b", "C18", "end">>, <<"C18c", "C18", "end">>,
  <<"C18d", "C18", "end">>, <<"C18e", "C18", "end">>,
  <<"C19a", "C19", "big">>, <<"C19b", "C19", "big">>, <<"C19c", "C19", "big">>,
  <<"C19d", "C19", "big">>,
  <<"C20a", "C20", "tr">>, <<"C20b", "C20", "tr">>,
  <<"S01", "S", "tr">>, <<"S03", "S", "end">>,
  <<"H01", "H", "st">>, <<"H02", "H", "tr">>, <<"H03", "H", "end">> >>

Selected(kind) == {c[1] : c \in {x \in ToSet(Clauses) : x[2] \in SelProps /\ x[3] = kind}}
ClauseNames == {c[1] : c \in {x \in ToSet(Clauses) : x[2] \in SelProps}}

(* ---- state lines ---- *)
EvalSt(n, s) ==
  CASE n = "C02a" -> C02a(cx, s) [] n = "C02b" -> C02b(cx, s) [] n = "C02c" -> C02c(cx, s)
    [] n = "C02d" -> C02d(cx, s) [] n = "C02e" -> C02e(cx, s)
    [] n = "C05a" -> C05a(cx, s) [] n = "C05b" -> C05b(cx, s)
    [] n = "C07a" -> C07a(cx, s) [] n = "C07c" -> C07c(cx, s) [] n = "C07d" -> C07d(cx, s)
    [] n = "C13a" -> C13a(cx, s) [] n = "C13b" -> C13b(cx, s)
    [] n = "C17a" -> C17a(cx, s) [] n = "C17b" -> C17b(cx, s) [] n = "C17c" -> C17c(cx, s)
    [] n = "C17d" -> C17d(cx, s) [] n = "C17e" -> C17e(cx, s) [] n = "C17f" -> C17f(cx, s)
    [] n = "C17g" -> C17g(cx, s) [] n = "C17h" -> C17h(cx, s)
    [] n = "H01" -> H01(cx, s)

(***************************************************************************)
(* Strict mode (clauses S..): the recorded transition must be the one the  *)
(* implementation-shaped model PPGEngine takes from the recorded pre-state *)
(* - result class, complete engine state afterwards, the sequence of       *)
(* signals handled and of job-state changes inside the call.  A failure is *)
(* reported as DRIFT (model and code disagree), never as a VIOLATION.      *)
(***************************************************************************)
ModelCall(c, pre, post, call, isStart) ==
  LET e == IF isStart THEN EInit(c) ELSE FromObs(c, pre, c.ord)
      n == call.name
      j == call.job
  IN CASE n \in {"startup", "badstartup"} -> Startup(c, e, c.ord)
       [] n \in {"start", "badstart"} -> NowRunning(c, e, j)
       [] n = "success" -> FinishedSuccess(c, e, j, post.rep[j])
       [] n = "badsuccess" -> FinishedSuccess(c, e, j, [c |-> [BOGUS |-> TRUE]])
       [] n \in {"fail", "failx", "badfail"} -> FinishedFailure(c, e, j)
       [] n \in {"cleanup", "badcleanup"} -> CleanupDone(c, e, j)
       [] n = "abort" -> AbortRemaining(c, e)
       [] n = "reconsider" -> ReconsiderAll(c, e)
ResClass(res) == IF res \in {"internal", "panic"} THEN "dead" ELSE res
StepsOf(steps, what) ==
  LET sel == SelectSeq(steps, LAMBDA x : x[1] = what /\ x[4] # "Pruned")
  IN IF what = "sig" THEN [i \in 1..Len(sel) |-> <<"sig", sel[i][2], sel[i][3]>>]
     ELSE [i \in 1..Len(sel) |-> <<"st", sel[i][2], sel[i][3], sel[i][4]>>]
(* one evaluation of the model per recorded transition: result class, complete engine state, and
   (when the hook's step log was recorded) the sequences of handled signals and state changes *)
S01(c, r, pre, post, isStart) ==
  V(~pre.dead \/ isStart,
    LET m == ModelCall(c, pre, post, r.call, isStart)
    IN /\ m.res = ResClass(r.res)
       /\ (m.res # "dead" => Diff(m.e, post) = {})
       /\ (m.res # "dead" /\ c.steps =>
             /\ SelectSeq(m.e.log, LAMBDA x : x[1] = "sig") = StepsOf(r.steps, "sig")
             /\ SelectSeq(m.e.log, LAMBDA x : x[1] = "st") = StepsOf(r.steps, "st")))
S03(c, s, nh, h1) ==
  V(~s.dead /\ s.fin,
    LET m == NewHistory(c, FromObs(c, s, c.ord))
    IN m.res = nh /\ (nh = "ok" => SameFn(m.h, h1)))

(* ---- transition lines ---- *)
EmptyPre(post) ==
  \* the state "before event_startup": nothing offered, nothing delivered
  [post EXCEPT !.ready = {}, !.running = {}, !.cleanup = {}, !.failed = {}, !.upf = {},
               !.started = {}, !.succ = {}, !.faildel = {}, !.changed = {}, !.cleaned = {},
               !.offered = {}, !.coffered = {}, !.skipev = {}, !.fin = FALSE,
               !.phase = "NotStarted"]
EvalTr(n, r, pre, post, isStart) ==
  LET call == r.call
      res == r.res
  IN
  CASE n = "C05c" -> C05c(cx, pre, post, call)
    [] n = "C06a" -> C06a(call, res, r.mis)
    [] n = "C06b" -> C06b(cx, call, res)
    [] n = "C07f" -> IF r.mis THEN "na" ELSE C07f(cx, pre, post)
    [] n = "C10a" -> C10a(call, res)
    [] n = "C10b" -> C10b(call, res, post)
    [] n = "C13c" -> IF isStart \/ r.mis THEN "na" ELSE C13c(pre, post, call, res)
    [] n = "C13d" -> IF isStart \/ r.mis THEN "na" ELSE C13d(pre, post)
    [] n = "C13f" -> IF r.mis THEN "na" ELSE C13f(cx, pre, post)
    [] n = "C16a" -> IF isStart \/ r.mis THEN "na" ELSE C16a(cx, pre, post, call, res)
    [] n = "C16b" -> IF isStart \/ r.mis THEN "na" ELSE C16b(cx, pre, post, call, res)
    [] n = "C17i" -> IF isStart \/ r.mis THEN "na" ELSE C17i(pre, post, call, res)
    [] n = "C17j" -> IF isStart \/ r.mis THEN "na" ELSE C17j(cx, pre, post)
    [] n = "C17k" -> IF isStart \/ r.mis \/ ~cx.c.steps THEN "na"
                     ELSE C17k(cx, pre.jst, post, r.steps, res)
    [] n = "C17l" -> IF isStart \/ r.mis THEN "na" ELSE C17l(pre, post, call, res)
    [] n = "C20a" -> C20a(res, r.mis)
    [] n = "C20b" -> C20b(r.mis, r.to = r.from)
    [] n = "H02" -> IF isStart THEN "na" ELSE H02(cx, pre, post, call, res, r.mis)
    [] n = "S01" -> S01(cx.c, r, pre, post, isStart)

(* ---- end lines ---- *)
EvalEnd(n, e, s, twinE, twinS, prevE, prevS) ==
  LET c == cx.c
      nh == e.nh
      h1 == e.hist1
      hasTwin == c.twin # 0
      hasPrev == c.prev # 0
      isResume == hasPrev /\ c.edit = "resume"
      unchanged == hasPrev /\ c.edit = "none" /\ Clean(prevS) /\ prevE.nh = "ok"
                   /\ c.fail = <<>> /\ c.flaky = <<>>
      ids == ToSet(e.ids)
      idnames == [x \in ids |-> ToSet(e.idnames[x])]
  IN
  CASE n = "C01a" -> C01a(cx, s)
    [] n = "C03a" -> C03a(cx, s)
    [] n = "C03b" -> C03b(cx, s)
    [] n = "C04a" -> C04a(cx, s)
    [] n = "C04b" -> C04b(cx, s)
    [] n = "C04c" -> IF hasTwin THEN C04c(cx, s, TRUE, twinS) ELSE "na"
    [] n = "C06c" -> C06c(s, nh)
    [] n = "C07b" -> C07b(cx, s)
    [] n = "C07e" -> IF hasTwin THEN C07e(cx, s, TRUE, twinS) ELSE "na"
    [] n = "C08a" -> C08a(cx, s, nh, h1)
    [] n = "C08b" -> C08b(cx, s, nh, h1)
    [] n = "C08c" -> IF isResume THEN C08c(cx, s, TRUE, prevS) ELSE "na"
    [] n = "C09a" -> C09a(cx, s, nh, h1)
    [] n = "C09b" -> IF isResume /\ hasTwin THEN C09b(cx, s, TRUE, TRUE, twinS) ELSE "na"
    [] n = "C09c" -> IF isResume THEN C09c(cx, s, TRUE) ELSE "na"
    [] n = "C09d" -> IF isResume /\ hasTwin
                     THEN C09d(cx, s, nh, h1, TRUE, TRUE, twinS, twinE.hist1) ELSE "na"
    [] n = "C10c" -> C10c(s, nh)
    [] n = "C11a" -> C11a(cx, s, nh, h1)
    [] n = "C11b" -> C11b(cx, s, nh, h1)
    [] n = "C11c" -> C11c(cx, s, nh, h1)
    [] n = "C11d" -> C11d(cx, s, nh, h1)
    [] n = "C11e" -> C11e(cx, s, nh, h1)
    [] n = "C12a" -> C12a(cx, s, unchanged)
    [] n = "C12b" -> C12b(cx, s, unchanged)
    [] n = "C12c" -> C12c(cx, s, nh, h1, unchanged)
    [] n = "C12d" -> C12d(cx, s, nh, unchanged)
    [] n = "C13e" -> C13e(cx, s)
    [] n = "C14a" -> IF e.first # 0 /\ e.first # l
                     THEN LET o == Rec[e.first] IN
                          C14a(cx, s, nh, h1, TRUE, Norm(Rec[o.st]), o.nh, o.hist1)
                     ELSE "na"
    [] n = "C14b" -> IF c.sameas # 0
                     THEN LET o == Rec[c.sameas] IN
                          C14a(cx, s, nh, h1, TRUE, Norm(Rec[o.st]), o.nh, o.hist1)
                     ELSE "na"
    [] n = "C15a" -> C15a(e.exactcmp, ToSet(e.exact))
    [] n = "C15b" -> IF e.exactcmp
                     THEN C15b(cx, s, nh, h1, TRUE,
                               {[s |-> Norm(Rec[Rec[x].st]), nh |-> Rec[x].nh, h1 |-> Rec[x].hist1]
                                  : x \in ToSet(e.exact)})
                     ELSE "na"
    [] n = "C16c" -> C16c(cx, s, nh, h1)
    [] n = "C18a" -> C18a(cx, h1, ids)
    [] n = "C18b" -> C18b(cx, s, nh, h1, ids, idnames)
    [] n = "C18c" -> C18c(cx, s, nh, h1, ids, idnames)
    [] n = "C18d" -> C18d(cx, s, nh, h1)
    [] n = "C18e" -> C18e(cx, s, nh, h1)
    [] n = "S03" -> S03(cx.c, s, nh, h1)
    [] n = "H03" -> H03(cx, s, e.exactcmp, ToSet(e.exact))

Results(r) ==
  \* [clause name -> "na" | "ok" | "bad"] for the clauses that apply to this line kind
  IF r.t = "st" THEN LET s == Norm(r) IN [n \in Selected("st") |-> EvalSt(n, s)]
  ELSE IF r.t = "tr"
       THEN LET post == Norm(Rec[r.to])
                isStart == r.from = 0
                pre == IF isStart THEN EmptyPre(post) ELSE Norm(Rec[r.from])
            IN [n \in Selected("tr") |-> EvalTr(n, r, pre, post, isStart)]
  ELSE IF r.t = "end"
       THEN LET s == Norm(Rec[r.st])
                twinE == IF cx.c.twin # 0 THEN Rec[cx.c.twin] ELSE r
                twinS == Norm(Rec[twinE.st])
                prevE == IF cx.c.prev # 0 THEN Rec[cx.c.prev] ELSE r
                prevS == Norm(Rec[prevE.st])
            IN [n \in Selected("end") |-> EvalEnd(n, r, s, twinE, twinS, prevE, prevS)]
  ELSE IF r.t = "big"
       THEN LET b1 == Rec[l - (r.pos - 1)]
                b2 == IF r.pos >= 2 THEN Rec[l - (r.pos - 2)] ELSE r
            IN [n \in Selected("big") |->
                  CASE n = "C19a" -> C19a(r) [] n = "C19b" -> C19b(r, b1, b2)
                    [] n = "C19c" -> C19c(r) [] n = "C19d" -> C19d(r)]
  ELSE <<>>

Init == /\ l = 1
        /\ cx = NoCtx
        /\ viol = <<>>
        /\ cov = [n \in ClauseNames |-> 0]

Next ==
  /\ l <= Len(Rec)
  /\ l' = l + 1
  /\ LET r == Rec[l] IN
     /\ cx' = IF r.t = "ctx" THEN Derive(r) ELSE cx
     /\ IF r.t = "ctx"
        THEN viol' = viol /\ cov' = cov  \* (a "big" line keeps the current context)
        ELSE LET res == Results(r)
                 bad == {n \in DOMAIN res : res[n] = "bad"}
             IN /\ viol' = IF bad = {} \/ Len(viol) >= MaxViol THEN viol
                           ELSE Append(viol, [line |-> l, clauses |-> bad])
                /\ cov' = [n \in ClauseNames |->
                             IF n \in DOMAIN res /\ res[n] # "na" THEN cov[n] + 1 ELSE cov[n]]
  /\ (l = Len(Rec) =>
        JsonSerialize(IOEnv.OUT, [lines |-> Len(Rec), viol |-> viol', cov |-> cov']))

Spec == Init /\ [][Next]_vars

(* the whole trace was consumed: one state per line plus the initial one *)
Consumed == TLCGet("stats").diameter = Len(Rec) + 1
=============================================================================
