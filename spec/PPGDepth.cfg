SPECIFICATION DSpec
CONSTANTS
  NJobs = 10
  MaxN = 10
  Families = {"chain", "fanout", "fanin", "layers"}
  GuardBase = 1500
  GuardPerJob = 10
INVARIANTS NoLimitHit WavesLinear FinishedOK
CHECK_DEADLOCK FALSE
