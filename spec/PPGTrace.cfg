SPECIFICATION Spec
CONSTANT SelProps = {"C01","C02","C03","C04","C05","C06","C07","C08","C09","C10","C11","C12","C13","C14","C15","C16","C17","C18","C20","H"}
CONSTANT MaxViol = 200
POSTCONDITION Consumed
CHECK_DEADLOCK FALSE
